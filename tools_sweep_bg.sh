#!/bin/bash
# tools_sweep.sh against the /repo snapshot of a background run (vp run --with-repo -- ./tools_sweep_bg.sh '<seeds>')
cd "$(dirname "$0")"
[ -n "$VP_RUN_REPO" ] && export WHOOSIM_REPO="$VP_RUN_REPO"
mkdir -p evidence out
exec ./tools_sweep.sh "$@"
