#!/usr/bin/env python3
"""Regenerates MANIFEST.json from the table below (so it is always valid)."""
import json, os, subprocess
HERE = os.path.dirname(os.path.abspath(__file__))

NA = [
 ("C11", "a matcher is a single-threaded cursor over immutable segment data; the property quantifies over call programs and inputs only: no schedule, clock, fault, crash or history for a simulator to own (docs: one reader/searcher per thread)"),
 ("C12", "a universally quantified inequality between pure functions of stored block statistics and scores; no schedule, time, I/O fault or history dimension"),
 ("C13", "the sortable encoding and range decomposition are pure functions on a numeric domain; 'configurations' here are field parameters, i.e. inputs"),
 ("C15", "normalize()/operators/pickling map a query value to a query value; equivalence is a pure function of (query, index contents)"),
 ("C16", "parser totality and language meaning are pure functions of the input string and plugin set; nothing concurrent, timed or fallible is involved"),
 ("C17", "agreement of index-time and query-time analysis is a relation between pure token-stream functions of a text"),
 ("C20", "algebraic laws of on-disk tables, integer codecs, external sort and id-sets are pure data-structure properties; the file I/O they perform is single-threaded deterministic read-back with no fault in the property's scope"),
]

# id -> (level, technique, text, note, design_ref)
CHECKS = {}

def load_checks():
    p = os.path.join(HERE, "manifest_checks.json")
    return json.load(open(p))

def main():
    checks = load_checks()
    claimed = set(c["property_id"] for c in checks)
    na = [{"property_id": i, "reason": r} for i, r in NA if i not in claimed]
    for extra in json.load(open(os.path.join(HERE, "manifest_checks.json"))):
        pass
    notbuilt = json.load(open(os.path.join(HERE, "manifest_notbuilt.json")))
    for i, r in notbuilt:
        if i not in claimed:
            na.append({"property_id": i, "reason": r})
    hooks_commits = []
    man = {
        "version": 1,
        "setup_cmd": "cd /verif && /venv/bin/python -B -c \"import sys; sys.path.insert(0,'/verif'); sys.path.insert(0,'/repo/src'); import whoosim.engine, whoosim.cli\" && mkdir -p /verif/evidence /verif/out",
        "hooks": {"guard": "WHOOSH_VERIF_SIM",
                  "enable": "no source hooks: every seam is a module global or class attribute of whoosh.* replaced at run time by /verif/whoosim/seams.py (the ./check wrapper exports WHOOSH_VERIF_SIM=1 for information only); checks import whoosh from /repo/src's working tree, so there is no build step",
                  "baseline_off_cmd": "cd /repo && /venv/bin/python -m pytest -ra -q -p no:cacheprovider --timeout=900 --continue-on-collection-errors",
                  "source_commits": hooks_commits, "add_only": True},
        "engines": [{"name": "whoosim", "path": "/verif/whoosim",
                     "serves_properties": sorted(claimed),
                     "kind_free_text": "deterministic simulation with fault injection: real Whoosh code on a simulated OS (files, flock, mmap, clock, threads, processes, queues, names) under a seeded baton-passing scheduler; reference model + history oracles; crash-state enumeration; ddmin minimiser; replay files"}],
        "checks": checks,
        "notes": "See DESIGN.md. known_findings.json lists repaired defects (status fixed, suppress nothing) and recorded findings (status known). Exit codes: 0 held, 1 VIOLATION, 2 HARNESS-ERROR.",
        "not_applicable": na,
    }
    json.dump(man, open(os.path.join(HERE, "MANIFEST.json"), "w"), indent=1)
    print("MANIFEST.json written: %d checks, %d not_applicable" % (len(checks), len(na)))

if __name__ == "__main__":
    main()
