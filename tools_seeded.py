#!/usr/bin/env python3
"""Confirms and evaluates seeded breaking changes kept under /verif/seeded/<id>/.

  tools_seeded.py confirm <dir>   in a scratch worktree: suite passes with the patch, demo fails with it and passes without
  tools_seeded.py eval [ids...]   apply each patch to /repo, run the property's quick check, undo; prints caught/missed
"""
import json, os, subprocess, sys, glob, time, shutil

VERIF = os.path.dirname(os.path.abspath(__file__))
REPO = "/repo"


def sh(cmd, **kw):
    return subprocess.run(cmd, shell=True, capture_output=True, text=True, **kw)


def confirm(d):
    wt = "/tmp/confirm_wt_%d" % os.getpid()
    sh("git -C %s worktree remove --force %s" % (REPO, wt))
    r = sh("git -C %s worktree add -q --detach %s HEAD" % (REPO, wt))
    assert r.returncode == 0, r.stderr
    os.makedirs(wt + "/.tmp", exist_ok=True)
    # private TMPDIR: RamStorage.temp_storage() uses <tmp>/MAIN.tmp, which concurrent suites share
    env = "cd %s && TMPDIR=%s/.tmp PYTHONPATH=%s/src" % (wt, wt, wt)
    out = {}
    try:
        demo = os.path.join(d, "demo.py")
        r = sh("%s timeout 600 /venv/bin/python -W ignore %s" % (env, demo))
        out["demo_clean_rc"] = r.returncode
        r = sh("git -C %s apply %s" % (wt, os.path.join(d, "patch.diff")))
        out["applies"] = r.returncode == 0
        if not out["applies"]:
            out["apply_err"] = r.stderr[:300]
            return out
        r = sh("%s timeout 900 /venv/bin/python -m pytest -q -p no:cacheprovider 2>&1 | tail -1" % env)
        out["suite"] = r.stdout.strip()
        r = sh("%s timeout 600 /venv/bin/python -W ignore %s" % (env, demo))
        out["demo_patched_rc"] = r.returncode
        out["demo_patched_tail"] = (r.stdout + r.stderr)[-300:]
    finally:
        sh("git -C %s worktree remove --force %s" % (REPO, wt))
    out["confirmed"] = (out.get("demo_clean_rc") == 0 and out.get("demo_patched_rc") not in (0, None)
                        and "587 passed" in out.get("suite", ""))
    return out


def evaluate(ids, seeds=("0",), tier="quick"):
    if os.environ.get("EVAL_WT"):
        return _evaluate(ids, seeds, tier, [])
    st = sh("git -C %s status --porcelain --untracked-files=no" % REPO).stdout.strip()
    if st:
        print("refusing: /repo has uncommitted changes")
        return 2
    rows = []
    # evidence files describe runs on the unchanged tree: keep them out of harm's way
    ev_dir = os.path.join(VERIF, "evidence")
    ev_keep = os.path.join(VERIF, "out", "evidence_keep_%d" % os.getpid())
    shutil.rmtree(ev_keep, ignore_errors=True)
    shutil.copytree(ev_dir, ev_keep)
    try:
        return _evaluate(ids, seeds, tier, rows)
    finally:
        shutil.rmtree(ev_dir, ignore_errors=True)
        shutil.copytree(ev_keep, ev_dir)
        shutil.rmtree(ev_keep, ignore_errors=True)


def _evaluate(ids, seeds, tier, rows):
    for d in sorted(glob.glob(os.path.join(VERIF, "seeded", "*"))):
        sid = os.path.basename(d)
        if ids and sid not in ids:
            continue
        meta = json.load(open(os.path.join(d, "meta.json")))
        if meta.get("retired"):
            print("%-28s retired: %s" % (sid, meta["retired"][:90]))
            continue
        pid = meta["property"]
        # EVAL_WT=1: evaluate in a scratch worktree of /repo's HEAD (removed afterwards) through the
        # WHOOSIM_REPO override, so that /repo itself stays untouched and usable meanwhile
        use_wt = bool(os.environ.get("EVAL_WT"))
        target = REPO
        wt = None
        if use_wt:
            wt = "/tmp/eval_wt_%d" % os.getpid()
            sh("git -C %s worktree remove --force %s" % (REPO, wt))
            r = sh("git -C %s worktree add -q --detach %s HEAD" % (REPO, wt))
            assert r.returncode == 0, r.stderr
            target = wt
        r = sh("git -C %s apply %s" % (target, os.path.join(d, "patch.diff")))
        if r.returncode != 0:
            rows.append((sid, pid, "noapply", r.stderr[:100]))
            print("%-28s %s NOAPPLY %s" % (sid, pid, r.stderr[:100]))
            if wt:
                sh("git -C %s worktree remove --force %s" % (REPO, wt))
            continue
        try:
            verdict = "missed"
            detail = ""
            checks = [pid]
            if os.environ.get("MATRIX"):
                man = json.load(open(os.path.join(VERIF, "MANIFEST.json")))
                checks = [pid] + [c["property_id"] for c in man["checks"] if c["property_id"] != pid]
            per = {}
            for chk in checks:
                for sd in seeds:
                    t0 = time.time()
                    p = sh("cd %s && %sWHOOSIM_EVIDENCE_DIR=%s/out/evidence_mutated%s VERIF_SEED=%s timeout 1500 ./check %s --tier %s" % (VERIF, ("WHOOSIM_REPO=%s " % wt) if wt else "", VERIF, ("_%d" % os.getpid()) if wt else "", sd, chk, tier))
                    ent = per.setdefault(chk, {"caught_seeds": [], "missed_seeds": [], "signatures": []})
                    if p.returncode == 1 and ("VIOLATION property=%s" % chk) in p.stdout:
                        lines = [l for l in p.stdout.splitlines() if l.startswith("  clause=")]
                        ent["caught_seeds"].append(sd)
                        for l in lines[:3]:
                            if l.strip() not in ent["signatures"]:
                                ent["signatures"].append(l.strip()[:200])
                        if chk == pid and verdict != "caught":
                            verdict = "caught"
                            detail = (lines[0].strip() if lines else "")[:160] + " (%.0fs, seed %s)" % (time.time() - t0, sd)
                    elif p.returncode == 2 or p.returncode > 2:
                        ent.setdefault("harness_error_seeds", []).append(sd)
                        if chk == pid and verdict == "missed":
                            verdict = "harness-error"
                            detail = str([l for l in p.stdout.splitlines() if "HARNESS" in l][:1])
                    else:
                        ent["missed_seeds"].append(sd)
            rows.append((sid, pid, verdict, detail, per))
        finally:
            if wt:
                sh("git -C %s worktree remove --force %s" % (REPO, wt))
            else:
                sh("git -C %s checkout -- ." % REPO)
        print("%-28s %s %-8s %s" % rows[-1][:4])
        others = [c for c in per if c != pid and per[c]["caught_seeds"]]
        if others:
            print("%-28s also caught by %s" % ("", " ".join(others)))
        sys.stdout.flush()
        # record in the seeded change's meta.json what was run and what it showed
        meta["evaluation"] = {"tier": tier, "seeds": list(seeds), "command": "git -C /repo apply seeded/%s/patch.diff; VERIF_SEED=<seed> ./check <ID> --tier %s; git -C /repo checkout -- ." % (sid, tier),
                              "own_check": verdict, "per_check": per}
        json.dump(meta, open(os.path.join(d, "meta.json"), "w"), indent=1, sort_keys=True)
    outp = os.path.join(VERIF, "out", "seeded_eval.json")
    old = {}
    if os.path.exists(outp):
        try:
            old = dict((r[0], r) for r in json.load(open(outp)))
        except Exception:
            old = {}
    for r in rows:
        old[r[0]] = list(r)
    json.dump([old[k] for k in sorted(old)], open(outp, "w"), indent=1, default=str)
    return 0


def import_round(wt, pid, first_index):
    """Copies <wt>/SEEDED/{patch,demo,notes}{1,2} to seeded/<pid>-<n>/ and confirms each."""
    for i in (1, 2):
        src = os.path.join(wt, "SEEDED")
        if not os.path.exists(os.path.join(src, "patch%d.diff" % i)):
            print("no patch%d in %s" % (i, src))
            continue
        sid = "%s-%d" % (pid, first_index + i - 1)
        d = os.path.join(VERIF, "seeded", sid)
        os.makedirs(d, exist_ok=True)
        shutil.copy(os.path.join(src, "patch%d.diff" % i), os.path.join(d, "patch.diff"))
        shutil.copy(os.path.join(src, "demo%d.py" % i), os.path.join(d, "demo.py"))
        notes = open(os.path.join(src, "notes%d.md" % i)).read()
        open(os.path.join(d, "notes.md"), "w").write(notes)
        c = confirm(d)
        meta = {"id": sid, "property": pid, "round": (first_index + 1) // 2,
                "source": "independent sub-agent given only the property text, a list of mechanisms already used in round 1, and a scratch worktree",
                "needs_to_manifest": notes[:2500],
                "confirmed_by": "tools_seeded.py confirm (scratch worktree of /repo HEAD, private TMPDIR): suite with patch, demo without and with patch",
                "confirmation": c}
        json.dump(meta, open(os.path.join(d, "meta.json"), "w"), indent=1, sort_keys=True)
        print(sid, "confirmed" if c.get("confirmed") else "NOT CONFIRMED", json.dumps(c)[:300])


if __name__ == "__main__":
    if sys.argv[1] == "confirm":
        print(json.dumps(confirm(sys.argv[2]), indent=1))
    elif sys.argv[1] == "import":
        import_round(sys.argv[2], sys.argv[3], int(sys.argv[4]))
    else:
        seeds = tuple(os.environ.get("SEEDS", "0").split())
        sys.exit(evaluate(sys.argv[2:], seeds=seeds, tier=os.environ.get("TIER", "quick")))
