import json, os, subprocess, glob, sys
rnd = sys.argv[1]
props = {}
for l in open('/verif/properties.jsonl'):
    d = json.loads(l); props[d['id']] = d
claimed = sys.argv[2:] or ["C01","C02","C03","C04","C05","C06","C07","C08","C09","C10","C14","C18","C19"]
for pid in claimed:
    wt = "/tmp/%s_%s" % (rnd, pid)
    subprocess.run("git -C /repo worktree remove --force %s; git -C /repo worktree add -q --detach %s HEAD" % (wt, wt), shell=True, capture_output=True)
    used = []
    for d in sorted(glob.glob('/verif/seeded/%s-*' % pid)):
        notes = open(d + '/notes.md').read().splitlines()
        title = next((x for x in notes if x.startswith('#')), notes[0]).lstrip('# ').strip()
        where = next((x for x in notes if x.lower().startswith(('**where', '**file', 'where', '**files'))), '')
        used.append("- %s  %s" % (title, where[:220]))
    p = props[pid]
    task = f"""# Task

You are working in a scratch git worktree of the Whoosh repository (pure-Python full-text search library): `{wt}`
(source under `{wt}/src/whoosh`, tests under `{wt}/tests`). Work ONLY inside this directory. Never touch `/repo`,
never read or touch `/verif`. Do not use `git stash` (the stash is shared between worktrees). There is no network.
Python is `/venv/bin/python`; run things as
`cd {wt} && mkdir -p .tmp && TMPDIR={wt}/.tmp PYTHONPATH={wt}/src /venv/bin/python ...`
and the test suite as
`cd {wt} && TMPDIR={wt}/.tmp PYTHONPATH={wt}/src /venv/bin/python -m pytest -q -p no:cacheprovider` (587 tests, ~20 s).

## The property

**{p['id']} - {p['title']}**

{p['statement']}

Quantifier: {p['quantifier']['text']}

## What to produce

TWO independent changes ("seeded defects") to the library source, each of which

1. breaks the property above (a user relying on the property would be harmed),
2. still imports/compiles, and the complete existing test suite still passes (all 587 tests) with the change applied,
3. looks like a plausible maintainer edit (an optimisation, a refactoring, a clean-up, a "fix") - not sabotage with an obvious marker,
4. needs something SPECIFIC to manifest - a particular interleaving of threads/processes, a crash or I/O fault at a
   particular point, a multi-step sequence of operations, an unusual but legal input or configuration, a size threshold,
   or two cooperating code sites that each look fine alone. Ordinary single-writer, single-segment, default-configuration
   use must keep working. Changes that any first use would expose are not wanted.

The two changes must be at different code sites and use different mechanisms from each other, and must differ from the
changes ALREADY MADE in earlier rounds for this property (listed below) - go to code paths, error paths, windows,
thresholds and feature combinations those did not touch. Prefer mechanisms that depend on timing, crash points, fault
handling, cleanup/retry paths, caches that survive across generations, segment layouts reached only by particular
histories, or rarely used constructor options.

Already used for this property (do not repeat these or close variants):
{chr(10).join(used)}

For each change i in (1, 2) write, in `{wt}/SEEDED/`:

* `patch<i>.diff` - `git diff` of that change ALONE against the unmodified tree (must apply with `git apply` to a clean checkout; source files under `src/whoosh` only, no test edits);
* `demo<i>.py` - a self-contained program using only the public Whoosh API (and the standard library; it may use
  threads, monkeypatching of os/time functions to force a timing or a fault, temp directories it cleans up) that
  exits 0 on the unmodified tree and exits non-zero (assertion with a clear message) with the change applied. It must be deterministic
  (no flaky sleeps: force the interleaving or fault explicitly), finish within 60 s, and take the source tree from PYTHONPATH;
* `notes<i>.md` - first line `# <short title>`, then `**Where:** <file, function>`, then: what was changed and how it is dressed up,
  what breaks for the user, and exactly what it needs in order to manifest.

Leave the worktree's source files UNMODIFIED at the end (`git checkout -- .` inside the worktree; `git status` must show only `SEEDED/` and `.tmp/`).
Before finishing, verify for each change on its own, starting from the clean tree: the patch applies; the full suite prints `587 passed`;
the demo fails with it; after reverting, the demo passes.

Also: if, while reading the code, you come across something in the UNMODIFIED tree that already violates the property
(a genuine existing bug), describe it with a minimal reproducer in `{wt}/SEEDED/suspicions.md` - that is valuable too.

Final answer: a short summary of the two changes (title, site, what it needs to manifest) and any suspicions.
"""
    open(wt + "/TASK.md", "w").write(task)
    print(pid, wt, len(used))
