#!/bin/bash
# Runs every registered check's quick tier under several VERIF_SEED values (false-alarm hunt).
cd "$(dirname "$0")"
seeds="${1:-1 2 3 4 5 6}"
for sd in $seeds; do
  for p in $(python3 -c "import json;print(' '.join(c['property_id'] for c in json.load(open('MANIFEST.json'))['checks']))"); do
    out=$(VERIF_SEED=$sd ./check $p --tier quick 2>&1)
    rc=$?
    echo "seed=$sd $p rc=$rc $(echo "$out" | tail -1)"
    if [ $rc -ne 0 ]; then echo "$out" | grep -v "^  File\|^    " | grep -v KNOWN | cut -c1-600 | tail -12; fi
  done
done
