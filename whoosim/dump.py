"""Canonical, document-number-free dump of a real Whoosh reader, in the same
shape as model.model_dump. Reads every byte the TOC references: all stored
fields, every posting of every term with its value bytes, all lengths,
vectors and columns."""

from whoosim.model import f32


class DumpError(Exception):
    """Reading the index through the public reader API raised."""

    def __init__(self, where, exc):
        Exception.__init__(self, "%s: %s: %s" % (where, type(exc).__name__, exc))
        self.where = where
        self.exc = exc


SCRIBBLE = [False]


def real_dump(reader, schema=None, uidfield="u", with_stats=False, parts=None):
    schema = schema or reader.schema
    parts = parts or ("stored", "lengths", "vectors", "columns", "terms")
    out = {"docs": {}, "terms": {}}
    where = "doc_count"
    try:
        out["doc_count"] = reader.doc_count()
        num2uid = {}
        where = "all_doc_ids"
        docnums = list(reader.all_doc_ids())
        from whoosim.workload import expand_names
        names = expand_names(list(schema.names()), schema)
        colfields = [n for n in names if schema[n].column_type] if "columns" in parts else []
        creaders = {}
        for n in colfields:
            where = "column_reader(%s)" % n
            if reader.has_column(n):
                creaders[n] = reader.column_reader(n)
            else:
                creaders[n] = None
        scorable = [n for n in names if schema[n].scorable] if "lengths" in parts else []
        vecfields = [n for n in names if schema[n].vector] if "vectors" in parts else []
        dup = []
        for dn in docnums:
            where = "stored_fields(%d)" % dn
            raw = reader.stored_fields(dn)
            st = dict(raw)
            if SCRIBBLE[0] and isinstance(raw, dict):
                # the dictionary a caller receives is the caller's (applications decorate it before
                # rendering): writing into it must not change what the index holds
                raw.clear()
                raw["zz_scribbled_by_caller"] = 1
            uid = st.get(uidfield)
            if uid in out["docs"]:
                dup.append(uid)
            num2uid[dn] = uid
            lengths = {}
            for n in scorable:
                where = "doc_field_length(%d,%s)" % (dn, n)
                l = reader.doc_field_length(dn, n)
                if l:
                    lengths[n] = l
            vectors = {}
            for n in vecfields:
                where = "vector(%d,%s)" % (dn, n)
                if reader.has_vector(dn, n):
                    m = reader.vector(dn, n)
                    items = []
                    while m.is_active():
                        tid = m.id()
                        if not isinstance(tid, bytes):
                            tid = tid.encode("utf-8")
                        items.append((tid, f32(m.weight()), m.value() or b""))
                        m.next()
                    vectors[n] = items
            cols = {}
            for n in colfields:
                where = "column(%s)[%d]" % (n, dn)
                cr = creaders[n]
                if cr is None:
                    cols[n] = ("default", None)
                else:
                    v = cr[dn]
                    cols[n] = ("v", v)
            out["docs"][uid] = {"stored": st, "lengths": lengths,
                                "vectors": vectors, "columns": cols}
        if dup:
            out["duplicate_uids"] = sorted(dup)
        order_errors = []
        where = "all_terms"
        terms = list(reader.all_terms()) if "terms" in parts else []
        # the lexicon is an ordered, duplicate-free listing (cursors, range and prefix expansion rely on it)
        for a_, b_ in zip(terms, terms[1:]):
            if not a_ < b_:
                out["lexicon_order_errors"] = [a_, b_]
                break
        stats = {}
        for f, tb in terms:
            where = "postings(%s,%r)" % (f, tb)
            m = reader.postings(f, tb)
            plist = {}
            last = -1
            fmt = schema[f].format
            while m.is_active():
                dn = m.id()
                if dn <= last:
                    order_errors.append((f, tb, last, dn))
                last = dn
                where = "postings(%s,%r)@%d" % (f, tb, dn)
                vb = m.value() or b""
                w = m.weight()
                freq = m.value_as("frequency") if fmt.supports("frequency") else None
                uid = num2uid.get(dn, ("?docnum", dn))
                plist[uid] = (freq, f32(w), vb)
                m.next()
            if plist:
                out["terms"][(f, tb)] = plist
            else:
                out.setdefault("dead_terms", []).append((f, tb))
            if with_stats:
                where = "term_info(%s,%r)" % (f, tb)
                ti = reader.term_info(f, tb)
                stats[(f, tb)] = (ti.doc_frequency(), ti.weight(), ti.min_length(),
                                  ti.max_length(), ti.max_weight(), ti.min_id(), ti.max_id())
        if order_errors:
            out["posting_order_errors"] = order_errors[:5]
        if with_stats:
            out["_stats"] = stats
            out["_num2uid"] = num2uid
    except Exception as e:  # noqa
        raise DumpError(where, e)
    return out


def fix_defaults(dump, schema):
    """Turn column values of documents into ("default", None) where the
    reader returned exactly the field's translated column default: the model
    cannot distinguish 'no value supplied' from 'default supplied', and the
    property only demands the default for unsupplied fields."""
    defaults = {}
    for n in schema.names():
        ct = schema[n].column_type
        if ct:
            try:
                defaults[n] = schema[n].from_column_value(ct.default_value())
            except Exception as e:  # noqa
                defaults[n] = ("untranslatable-default", repr(e))
    return defaults
