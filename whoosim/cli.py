"""Command line of the checks. Exit codes: 0 held / 1 violation / 2 harness error."""

import argparse
import os
import sys

sys.path[:] = [p for p in sys.path if os.path.abspath(p or ".") != os.path.dirname(os.path.abspath(__file__))]


def main():
    ap = argparse.ArgumentParser()
    ap.add_argument("prop")
    ap.add_argument("--tier", default=os.environ.get("VERIF_TIER", "quick"))
    ap.add_argument("--seed", type=int, default=None)
    ap.add_argument("--runs", type=int, default=None)
    ap.add_argument("--time-budget", type=float, default=None)
    ap.add_argument("--workers", type=int, default=16)
    ap.add_argument("--replay", default=None)
    ap.add_argument("--one", type=int, default=None, help="run exactly this per-run seed and print the result")
    ap.add_argument("--trace", action="store_true")
    ap.add_argument("--quiet", action="store_true")
    ap.add_argument("--selftest", default=None)
    a = ap.parse_args()
    import warnings
    warnings.simplefilter("ignore")
    sys.setrecursionlimit(10000)
    from whoosim import engine, util
    pid = a.prop.upper()
    if a.tier not in ("quick", "thorough"):
        a.tier = "quick"
    if a.selftest:
        from whoosim import selftest
        return selftest.main(pid, a.selftest, a)
    if a.replay:
        res, same = engine.replay_file(pid, a.replay, verbose=not a.quiet)
        if res["verdict"] == "violation":
            if not a.quiet:
                print("VIOLATION property=%s replay=%s" % (pid, a.replay))
            return 1
        if res["verdict"] == "harness_error":
            print("HARNESS-ERROR %s" % res["detail"])
            return 2
        return 0
    if a.one is not None:
        res = engine.run_one(pid, a.one, a.tier, want_record=True)
        rec = res.pop("record", None)
        if a.trace and rec is not None:
            r2 = engine.prop_module(pid).execute(rec, trace=True)
            for line in r2.get("log", []):
                print(line)
        print(util.dumps(rec, indent=1) if rec and not a.quiet else "")
        print(util.dumps(dict((k, v) for k, v in res.items() if k != "sample"), indent=1))
        return {"ok": 0, "violation": 1}.get(res["verdict"], 2)
    seed = a.seed if a.seed is not None else int(os.environ.get("VERIF_SEED", "0") or 0)
    return engine.main_check(pid, a.tier, seed, nruns=a.runs, time_budget=a.time_budget, workers=a.workers)


if __name__ == "__main__":
    sys.exit(main())
