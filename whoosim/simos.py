"""Simulated operating system: in-memory file system with POSIX unlink
semantics, per-process descriptor tables, user-space write buffering that can
be torn by a crash, flock on open file descriptions, mmap, clock, tempfile.

Only the subset of the os / builtins / fcntl / mmap / tempfile / time API that
Whoosh uses is provided; anything else raises AttributeError loudly.
"""

import errno
import hashlib
import mmap as _real_mmap
import sys
import os as _real_os
import posixpath

from whoosim.kernel import SimKilled, HarnessError

FD_BASE = 1000000

O_RDONLY = _real_os.O_RDONLY
O_WRONLY = _real_os.O_WRONLY
O_RDWR = _real_os.O_RDWR
O_CREAT = _real_os.O_CREAT
O_EXCL = _real_os.O_EXCL
O_TRUNC = _real_os.O_TRUNC
O_APPEND = _real_os.O_APPEND

LOCK_SH, LOCK_EX, LOCK_NB, LOCK_UN = 1, 2, 4, 8


def _oserr(code, path=None):
    cls = {errno.ENOENT: FileNotFoundError, errno.EEXIST: FileExistsError,
           errno.ENOTDIR: NotADirectoryError, errno.EISDIR: IsADirectoryError,
           errno.EAGAIN: BlockingIOError}.get(code, OSError)
    if path is None:
        return cls(code, _real_os.strerror(code))
    return cls(code, _real_os.strerror(code), path)


class Inode(object):
    __slots__ = ("ino", "data", "is_dir", "entries", "mtime", "lock_ofd")

    def __init__(self, ino, is_dir=False, mtime=0.0):
        self.ino = ino
        self.is_dir = is_dir
        self.data = b"" if not is_dir else None
        self.entries = {} if is_dir else None
        self.mtime = mtime
        self.lock_ofd = None


class OFD(object):
    """Open file description."""
    __slots__ = ("inode", "readable", "writable", "append", "proc", "closed",
                 "path", "refs")

    def __init__(self, inode, readable, writable, append, proc, path):
        self.inode = inode
        self.readable = readable
        self.writable = writable
        self.append = append
        self.proc = proc
        self.closed = False
        self.path = path
        self.refs = 1    # descriptors referring to this description (more than one after a fork)


class SimFile(object):
    """Buffered binary file object over a simulated descriptor.

    Bytes written stay in the user-space buffer ``_wbuf`` until flush/seek/
    close/read or until the buffer reaches the run's ``bufsize`` knob; only
    then do they reach the inode ("the kernel"), which is what other
    processes and a post-crash reopen can see.
    """

    def __init__(self, simos, proc, fd, ofd, mode, name):
        self._os = simos
        self._proc = proc
        self._fd = fd
        self._ofd0 = ofd
        self.mode = mode
        self.name = name
        self._pos = 0
        self._wbuf = bytearray()
        self._wstart = 0
        self.closed = False
        proc.files.append(self)

    # -- helpers
    @property
    def _ofd(self):
        """A file object only knows its descriptor *number*: if somebody closed that number
        behind its back every system call fails with EBADF, and if the number has been handed
        out again the call lands in the other file - exactly as on a real system."""
        o = self._proc.fds.get(self._fd)
        if o is None:
            if not self._proc.alive:
                return self._ofd0
            raise OSError(errno.EBADF, "Bad file descriptor")
        return o

    def _check(self):
        if self.closed:
            raise ValueError("I/O operation on closed file.")

    def _push(self):
        """Hand the pending bytes to the kernel (one OS-visible write)."""
        if not self._wbuf:
            return
        self._os._ev("write", "%s@%d+%d" % (self.name, self._wstart, len(self._wbuf)))
        try:
            self._os._maybe_fail("write", self.name)
        except OSError as e:
            n = getattr(e, "short", 0)
            if n:
                # a short write: the first n bytes reached the file before the error (ENOSPC)
                self._apply(bytes(self._wbuf[:n]))
            raise
        self._apply(bytes(self._wbuf))
        self._wbuf = bytearray()

    def _apply(self, b):
        ino = self._ofd.inode
        data = ino.data
        start = self._wstart
        if start > len(data):
            data = data + b"\0" * (start - len(data))
        ino.data = data[:start] + b + data[start + len(b):]
        ino.mtime = self._os.kernel.time()

    # -- file API
    def fileno(self):
        self._check()
        return self._fd

    def readable(self):
        return self._ofd.readable

    def writable(self):
        return self._ofd.writable

    def seekable(self):
        return True

    def write(self, b):
        self._check()
        if not self._ofd.writable:
            raise OSError(errno.EBADF, "not writable")
        if not isinstance(b, (bytes, bytearray)):
            b = bytes(memoryview(b).cast("B"))
        n = len(b)
        if n == 0:
            return 0
        if self._wbuf and self._pos != self._wstart + len(self._wbuf):
            self._push()
        if not self._wbuf:
            self._wstart = self._pos
        self._wbuf += b
        self._pos += n
        if len(self._wbuf) >= self._os.bufsize:
            self._push()
        return n

    def read(self, n=-1):
        self._check()
        if self._wbuf:
            self._push()
        data = self._ofd.inode.data
        if n is None or n < 0:
            out = data[self._pos:]
        else:
            out = data[self._pos:self._pos + n]
        self._pos += len(out)
        return out

    def readinto(self, buf):
        b = self.read(len(buf))
        buf[:len(b)] = b
        return len(b)

    def readline(self, limit=-1):
        self._check()
        if self._wbuf:
            self._push()
        data = self._ofd.inode.data
        i = data.find(b"\n", self._pos)
        end = len(data) if i < 0 else i + 1
        if limit is not None and limit >= 0:
            end = min(end, self._pos + limit)
        out = data[self._pos:end]
        self._pos = end
        return out

    def __iter__(self):
        while True:
            line = self.readline()
            if not line:
                return
            yield line

    def seek(self, offset, whence=0):
        self._check()
        if self._wbuf:
            self._push()
        if whence == 0:
            pos = offset
        elif whence == 1:
            pos = self._pos + offset
        elif whence == 2:
            pos = len(self._ofd.inode.data) + offset
        else:
            raise ValueError("bad whence")
        if pos < 0:
            raise OSError(errno.EINVAL, "negative seek position")
        self._pos = pos
        return pos

    def tell(self):
        self._check()
        return self._pos

    def flush(self):
        self._check()
        self._push()

    def truncate(self, size=None):
        self._check()
        self._push()
        if size is None:
            size = self._pos
        self._os._ev("truncate", "%s@%d" % (self.name, size))
        ino = self._ofd.inode
        if size <= len(ino.data):
            ino.data = ino.data[:size]
        else:
            ino.data = ino.data + b"\0" * (size - len(ino.data))
        return size

    def close(self):
        if self.closed:
            return
        try:
            if self._proc.alive and self._os.kernel.active \
                    and not self._os.kernel.aborting:
                self._push()
                self._os._ev("close", self.name)
        finally:
            self.closed = True
            self._wbuf = bytearray()
            try:
                self._proc.files.remove(self)
            except ValueError:
                pass
            if self._proc.alive:
                self._os._close_fd(self._proc, self._fd)

    def __enter__(self):
        self._check()
        return self

    def __exit__(self, *a):
        self.close()

    def __del__(self):
        try:
            if not self.closed:
                self.close()
        except BaseException:
            pass


class _Path(object):
    """os.path facade."""

    def __init__(self, simos):
        self._os = simos
        self.sep = "/"
    join = staticmethod(posixpath.join)
    basename = staticmethod(posixpath.basename)
    dirname = staticmethod(posixpath.dirname)
    split = staticmethod(posixpath.split)
    splitext = staticmethod(posixpath.splitext)
    normpath = staticmethod(posixpath.normpath)
    isabs = staticmethod(posixpath.isabs)

    def abspath(self, p):
        if not posixpath.isabs(p):
            p = posixpath.join(self._os._cwd(), p)
        return posixpath.normpath(p)

    def exists(self, p):
        self._os._ev("stat", p)
        return self._os._lookup(p) is not None

    def isdir(self, p):
        self._os._ev("stat", p)
        ino = self._os._lookup(p)
        return ino is not None and ino.is_dir

    def isfile(self, p):
        self._os._ev("stat", p)
        ino = self._os._lookup(p)
        return ino is not None and not ino.is_dir

    def getsize(self, p):
        self._os._ev("stat", p)
        ino = self._os._lookup(p)
        if ino is None:
            raise _oserr(errno.ENOENT, p)
        return 0 if ino.is_dir else len(ino.data)

    def getmtime(self, p):
        self._os._ev("stat", p)
        ino = self._os._lookup(p)
        if ino is None:
            raise _oserr(errno.ENOENT, p)
        return ino.mtime


class SimOS(object):
    """One simulated machine. Exposes ``os``-, ``open``-, ``fcntl``-,
    ``mmap``-, ``tempfile``- and ``time``-shaped facades (attributes
    ``os``, ``open``, ``fcntl``, ``mmap``, ``tempfile``, ``time``)."""

    def __init__(self, kernel, bufsize=8192, hide_fileno=False,
                 shuffle_listdir=True):
        self.kernel = kernel
        self.bufsize = bufsize
        self.hide_fileno = hide_fileno
        self.shuffle_listdir = shuffle_listdir
        self._ino = 1
        self.root = Inode(0, is_dir=True)
        self._ls_rng = kernel.stream("listdir")
        self.fail_plan = None  # callable(kind, name) -> exception or None
        self.os = _OsFacade(self)
        self.fcntl = _FcntlFacade(self)
        self.mmap = _MmapFacade(self)
        self.tempfile = _TempfileFacade(self)
        self.time = _TimeFacade(self)
        self.open = self._builtin_open
        self.mkdirs("/simtmp")

    # -- plumbing ---------------------------------------------------------

    def _ev(self, kind, detail=""):
        self.kernel.event(kind, detail)

    def _maybe_fail(self, kind, name):
        fp = self.fail_plan
        if fp is not None:
            exc = fp(kind, name)
            if exc is not None:
                raise exc

    def _proc(self):
        return self.kernel.current.proc

    def _cwd(self):
        return self.kernel.current.proc.cwd

    def _norm(self, p):
        if isinstance(p, bytes):
            p = p.decode()
        if not posixpath.isabs(p):
            p = posixpath.join(self._cwd(), p)
        return posixpath.normpath(p)

    def _walk(self, p):
        parts = [x for x in self._norm(p).split("/") if x]
        return parts

    def _lookup(self, p):
        node = self.root
        for part in self._walk(p):
            if not node.is_dir:
                return None
            node = node.entries.get(part)
            if node is None:
                return None
        return node

    def _parent(self, p):
        parts = self._walk(p)
        if not parts:
            raise _oserr(errno.EINVAL, p)
        node = self.root
        for part in parts[:-1]:
            if not node.is_dir:
                raise _oserr(errno.ENOTDIR, p)
            node = node.entries.get(part)
            if node is None:
                raise _oserr(errno.ENOENT, p)
        if not node.is_dir:
            raise _oserr(errno.ENOTDIR, p)
        return node, parts[-1]

    def _new_inode(self, is_dir=False):
        ino = Inode(self._ino, is_dir=is_dir, mtime=self.kernel.time())
        self._ino += 1
        return ino

    def mkdirs(self, p):
        """Harness-side directory creation (not an event)."""
        node = self.root
        for part in self._walk(p):
            nxt = node.entries.get(part)
            if nxt is None:
                nxt = self._new_inode(is_dir=True)
                node.entries[part] = nxt
            node = nxt
        return node

    # -- descriptors ----------------------------------------------------------

    def _open_fd(self, path, flags, proc=None):
        proc = proc or self._proc()
        path = self._norm(path)
        acc = flags & 3
        readable = acc in (O_RDONLY, O_RDWR)
        writable = acc in (O_WRONLY, O_RDWR)
        if flags & O_CREAT:
            kind = "creat"
        elif writable:
            kind = "openw"
        else:
            kind = "openr"
        self._ev(kind, path)
        if kind != "openr":
            self._maybe_fail(kind, path)
        parent, name = self._parent(path)
        ino = parent.entries.get(name)
        if ino is None:
            if not flags & O_CREAT:
                raise _oserr(errno.ENOENT, path)
            ino = self._new_inode()
            parent.entries[name] = ino
        else:
            if flags & O_CREAT and flags & O_EXCL:
                raise _oserr(errno.EEXIST, path)
            if ino.is_dir:
                raise _oserr(errno.EISDIR, path)
        if flags & O_TRUNC and writable:
            ino.data = b""
            ino.mtime = self.kernel.time()
        ofd = OFD(ino, readable, writable, bool(flags & O_APPEND), proc, path)
        # POSIX: the lowest descriptor number not in use in this process (numbers are recycled,
        # so a stale number held by some object can come to mean another file); the numbering
        # starts far above any real descriptor
        fd = FD_BASE
        fds = proc.fds
        while fd in fds:
            fd += 1
        fds[fd] = ofd
        return fd, ofd

    def _close_fd(self, proc, fd):
        ofd = proc.fds.pop(fd, None)
        if ofd is None:
            raise _oserr(errno.EBADF)
        self._drop_ref(ofd)

    def _drop_ref(self, ofd, announce=True):
        # flock(2): the lock goes with the open file description; it is released by an explicit
        # LOCK_UN on any descriptor of it, or when the last such descriptor is closed
        ofd.refs -= 1
        if ofd.refs > 0:
            return
        ofd.closed = True
        if ofd.inode.lock_ofd is ofd:
            ofd.inode.lock_ofd = None
            if announce:
                self.kernel.post_event("unlocked", ofd.path)

    def fork_fds(self, parent, child):
        """fork(): the child gets a copy of the parent's descriptor table; each entry refers to
        the same open file description (so to the same flock)."""
        for fd, ofd in parent.fds.items():
            child.fds[fd] = ofd
            ofd.refs += 1

    def exit_proc(self, proc):
        """Normal process exit: every descriptor is closed."""
        for fd in list(proc.fds):
            ofd = proc.fds.pop(fd)
            self._drop_ref(ofd)

    def _builtin_open(self, path, mode="r", *args, **kwargs):
        if "b" not in mode:
            raise HarnessError("text-mode open(%r, %r) is not simulated" % (path, mode))
        m = mode.replace("b", "")
        if m == "r":
            flags = O_RDONLY
        elif m == "w":
            flags = O_WRONLY | O_CREAT | O_TRUNC
        elif m in ("w+", "+w"):
            flags = O_RDWR | O_CREAT | O_TRUNC
        elif m in ("r+", "+r"):
            flags = O_RDWR
        elif m == "a":
            flags = O_WRONLY | O_CREAT | O_APPEND
        elif m == "x":
            flags = O_WRONLY | O_CREAT | O_EXCL
        else:
            raise HarnessError("open mode %r is not simulated" % mode)
        proc = self._proc()
        fd, ofd = self._open_fd(path, flags, proc)
        f = SimFile(self, proc, fd, ofd, mode, self._norm(path))
        if flags & O_APPEND:
            f._pos = len(ofd.inode.data)
        if self.hide_fileno:
            return _NoFileno(f)
        return f

    # -- crash support ----------------------------------------------------------

    def pending(self, proc):
        """[(SimFile, pending byte count)] for files of proc with unflushed
        user-space bytes."""
        return [(f, len(f._wbuf)) for f in proc.files if f._wbuf]

    def kill(self, proc, tear=None):
        """kill -9: descriptors dropped without flushing; for each file with
        pending bytes a prefix chosen by ``tear`` (dict name -> byte count,
        default 0) reaches the inode; flocks die with the descriptors."""
        tear = tear or {}
        for f in list(proc.files):
            if f._wbuf:
                n = tear.get(f.name, 0)
                if n:
                    f._apply(bytes(f._wbuf[:n]))
            f._wbuf = bytearray()
            f.closed = True
        proc.files = []
        for fd, ofd in list(proc.fds.items()):
            self._drop_ref(ofd, announce=False)
        proc.fds = {}
        proc.alive = False

    def snapshot(self, proc=None, tear=None):
        """A deep copy of the directory tree as a crash of ``proc`` at this
        instant would leave it: returns a new SimOS-independent tree
        (dict path -> bytes, plus the set of directories)."""
        files = {}
        dirs = set()

        def rec(node, prefix):
            for name in node.entries:
                ch = node.entries[name]
                p = prefix + "/" + name
                if ch.is_dir:
                    dirs.add(p)
                    rec(ch, p)
                else:
                    files[p] = ch.data
        rec(self.root, "")
        if proc is not None and tear:
            # apply surviving prefixes of pending buffers
            for f in proc.files:
                n = tear.get(f.name, 0)
                if f._wbuf and n:
                    # only if the name still refers to this inode
                    if self._lookup(f.name) is f._ofd0.inode:
                        data = files.get(f.name, b"")
                        start = f._wstart
                        b = bytes(f._wbuf[:n])
                        if start > len(data):
                            data = data + b"\0" * (start - len(data))
                        files[f.name] = data[:start] + b + data[start + len(b):]
        return files, dirs

    def load_snapshot(self, snap):
        files, dirs = snap
        for d in sorted(dirs):
            self.mkdirs(d)
        for p in sorted(files):
            parent = self.mkdirs(posixpath.dirname(p))
            ino = self._new_inode()
            ino.data = files[p]
            parent.entries[posixpath.basename(p)] = ino

    def tree_digest(self, under="/"):
        h = hashlib.sha256()
        files, dirs = self.snapshot()
        for p in sorted(dirs):
            if p.startswith(under):
                h.update(("D" + p + "\n").encode())
        for p in sorted(files):
            if p.startswith(under):
                h.update(("F" + p + "\n").encode())
                h.update(hashlib.sha256(files[p]).digest())
        return h.hexdigest()

    def listing(self, d):
        node = self._lookup(d)
        if node is None or not node.is_dir:
            return None
        return sorted(node.entries)


def snapshot_digest(snap, under="/"):
    """Cheap content key of a snapshot (path, length, bytes-hash per file;
    PYTHONHASHSEED is pinned by ./check, so it is stable across processes)."""
    files, dirs = snap
    h = hashlib.sha256()
    for p in sorted(dirs):
        if p.startswith(under):
            h.update(("D" + p + "\n").encode())
    for p in sorted(files):
        if p.startswith(under):
            d = files[p]
            h.update(("F%s|%d|%d\n" % (p, len(d), hash(d))).encode())
    return h.hexdigest()


class _NoFileno(object):
    """Wrapper hiding fileno() so that Whoosh takes its non-mmap,
    non-'real file' branches."""

    def __init__(self, f):
        object.__setattr__(self, "_f", f)

    def __getattr__(self, name):
        if name == "fileno":
            raise AttributeError(name)
        return getattr(object.__getattribute__(self, "_f"), name)

    def __iter__(self):
        return iter(self._f)

    def __enter__(self):
        self._f.__enter__()
        return self

    def __exit__(self, *a):
        return self._f.__exit__(*a)


class _OsFacade(object):
    name = "posix"
    sep = "/"
    linesep = "\n"
    error = OSError
    O_RDONLY, O_WRONLY, O_RDWR = O_RDONLY, O_WRONLY, O_RDWR
    O_CREAT, O_EXCL, O_TRUNC, O_APPEND = O_CREAT, O_EXCL, O_TRUNC, O_APPEND
    SEEK_SET, SEEK_CUR, SEEK_END = 0, 1, 2

    def __init__(self, simos):
        self._os = simos
        self.path = _Path(simos)

    def __getattr__(self, name):
        if not hasattr(_real_os, name):
            # e.g. hasattr(os, "O_BINARY") on a POSIX system: absent there, absent here
            raise AttributeError(name)
        raise HarnessError("os.%s is not simulated" % name)

    def getpid(self):
        return self._os._proc().pid

    def getcwd(self):
        return self._os._cwd()

    def open(self, path, flags, mode=0o777):
        fd, _ = self._os._open_fd(path, flags)
        return fd

    def fdopen(self, fd, mode="r", *a, **k):
        proc = self._os._proc()
        ofd = proc.fds.get(fd)
        if ofd is None:
            raise _oserr(errno.EBADF)
        if "b" not in mode:
            raise HarnessError("text-mode fdopen is not simulated")
        f = SimFile(self._os, proc, fd, ofd, mode, ofd.path)
        if self._os.hide_fileno:
            return _NoFileno(f)
        return f

    def close(self, fd):
        proc = self._os._proc()
        ofd = proc.fds.get(fd)
        self._os._ev("close", ofd.path if ofd else "fd%d" % fd)
        self._os._close_fd(proc, fd)

    def remove(self, path):
        s = self._os
        path = s._norm(path)
        s._ev("unlink", path)
        s._maybe_fail("unlink", path)
        parent, name = s._parent(path)
        ino = parent.entries.get(name)
        if ino is None:
            raise _oserr(errno.ENOENT, path)
        if ino.is_dir:
            raise _oserr(errno.EISDIR, path)
        del parent.entries[name]

    unlink = remove

    def rename(self, src, dst):
        s = self._os
        src = s._norm(src)
        dst = s._norm(dst)
        s._ev("rename", "%s>%s" % (src, dst))
        s._maybe_fail("rename", dst)
        sp, sn = s._parent(src)
        ino = sp.entries.get(sn)
        if ino is None:
            raise _oserr(errno.ENOENT, src)
        dp, dn = s._parent(dst)
        old = dp.entries.get(dn)
        if old is not None:
            if old.is_dir and not ino.is_dir:
                raise _oserr(errno.EISDIR, dst)
            if ino.is_dir and not old.is_dir:
                raise _oserr(errno.ENOTDIR, dst)
            if old.is_dir and old.entries:
                raise _oserr(errno.ENOTEMPTY, dst)
        del sp.entries[sn]
        dp.entries[dn] = ino
        s.kernel.post_event("rename", "%s>%s" % (src, dst))

    replace = rename

    def listdir(self, path="."):
        s = self._os
        path = s._norm(path)
        s._ev("listdir", path)
        node = s._lookup(path)
        if node is None:
            raise _oserr(errno.ENOENT, path)
        if not node.is_dir:
            raise _oserr(errno.ENOTDIR, path)
        names = sorted(node.entries)
        if s.shuffle_listdir and len(names) > 1:
            s._ls_rng.shuffle(names)
        return names

    def mkdir(self, path, mode=0o777):
        s = self._os
        path = s._norm(path)
        s._ev("mkdir", path)
        parent, name = s._parent(path)
        if name in parent.entries:
            raise _oserr(errno.EEXIST, path)
        parent.entries[name] = s._new_inode(is_dir=True)

    def makedirs(self, path, mode=0o777, exist_ok=False):
        s = self._os
        path = s._norm(path)
        s._ev("makedirs", path)
        node = s.root
        parts = s._walk(path)
        for i, part in enumerate(parts):
            nxt = node.entries.get(part)
            if nxt is None:
                nxt = s._new_inode(is_dir=True)
                node.entries[part] = nxt
            elif not nxt.is_dir:
                raise _oserr(errno.ENOTDIR if i < len(parts) - 1 else errno.EEXIST, path)
            elif i == len(parts) - 1 and not exist_ok:
                raise _oserr(errno.EEXIST, path)
            node = nxt

    def rmdir(self, path):
        s = self._os
        path = s._norm(path)
        s._ev("rmdir", path)
        s._maybe_fail("rmdir", path)
        parent, name = s._parent(path)
        ino = parent.entries.get(name)
        if ino is None:
            raise _oserr(errno.ENOENT, path)
        if not ino.is_dir:
            raise _oserr(errno.ENOTDIR, path)
        if ino.entries:
            raise _oserr(errno.ENOTEMPTY, path)
        del parent.entries[name]


class _FcntlFacade(object):
    LOCK_SH, LOCK_EX, LOCK_NB, LOCK_UN = LOCK_SH, LOCK_EX, LOCK_NB, LOCK_UN

    def __init__(self, simos):
        self._os = simos

    def flock(self, fd, op):
        s = self._os
        proc = s._proc()
        if not proc.alive:
            # a killed process unwinding (a finally block reaching its unlock): nothing it does has any effect
            from whoosim.kernel import SimKilled
            raise SimKilled()
        ofd = proc.fds.get(fd)
        if ofd is None:
            raise _oserr(errno.EBADF)
        ino = ofd.inode
        if op & LOCK_UN:
            s._ev("funlock", ofd.path)
            if ino.lock_ofd is ofd:
                ino.lock_ofd = None
                s.kernel.post_event("unlocked", ofd.path)
            return
        if not op & LOCK_EX:
            raise HarnessError("only LOCK_EX/LOCK_UN are simulated")
        s._ev("flock", ofd.path)
        if ino.lock_ofd is None or ino.lock_ofd is ofd:
            ino.lock_ofd = ofd
            s.kernel.count("flock_acquired")
            s.kernel.post_event("locked", ofd.path)
            return
        s.kernel.count("flock_contended")
        if op & LOCK_NB:
            raise _oserr(errno.EAGAIN)
        s.kernel.block_until(lambda: ino.lock_ofd is None, desc="flock")
        ino.lock_ofd = ofd
        s.kernel.post_event("locked", ofd.path)


class _MmapFacade(object):
    ACCESS_READ = _real_mmap.ACCESS_READ
    error = OSError

    def __init__(self, simos):
        self._os = simos

    def mmap(self, fileno, length, access=None, **kw):
        s = self._os
        proc = s._proc()
        ofd = proc.fds.get(fileno)
        if ofd is None:
            raise _oserr(errno.EBADF)
        if length != 0:
            raise HarnessError("mmap with explicit length is not simulated")
        s._ev("mmap", ofd.path)
        data = ofd.inode.data
        if not data:
            raise ValueError("cannot mmap an empty file")
        m = _real_mmap.mmap(-1, len(data))
        m.write(data)
        m.seek(0)
        s.kernel.count("mmap")
        return m


class _TempfileFacade(object):
    def __init__(self, simos):
        self._os = simos

    def gettempdir(self):
        return "/simtmp"

    def mkstemp(self, suffix="", prefix="tmp", dir=None):
        s = self._os
        rng = s.kernel.stream("names")
        d = dir or "/simtmp"
        while True:
            name = prefix + "".join(rng.choice("abcdefghijklmnopqrstuvwxyz0123456789")
                                    for _ in range(8)) + suffix
            p = posixpath.join(d, name)
            if s._lookup(p) is None:
                break
        fd, _ = s._open_fd(p, O_RDWR | O_CREAT | O_EXCL)
        return fd, p


class _TimeFacade(object):
    def __init__(self, simos):
        self._os = simos

    def time(self):
        return self._os.kernel.time()

    def perf_counter(self):
        return self._os.kernel.time()

    def sleep(self, seconds):
        # reach probe: which library loop is waiting (lock polling in try_for, the
        # vanished-file retry of FileIndex.reader, AsyncWriter's poll, ...)
        try:
            co = sys._getframe(1).f_code
            if "/whoosh/" in co.co_filename:
                self._os.kernel.count("reach:sleep@%s.%s" % (co.co_filename.rsplit("/", 1)[-1][:-3], co.co_name))
        except ValueError:
            pass
        self._os.kernel.sleep(seconds)

    def __getattr__(self, name):
        raise HarnessError("time.%s is not simulated" % name)
