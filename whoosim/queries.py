"""Query specs (JSON-able), their Whoosh query objects, a generator, and the
reference evaluator (set semantics from the documentation: querylang.rst,
query.rst, api/query docstrings)."""

import fnmatch
import re


def show(spec):
    k = spec[0]
    if k == "term":
        return "%s:%s" % (spec[1], spec[2])
    if k in ("and", "or"):
        return "(" + (" %s " % k.upper()).join(show(s) for s in spec[1]) + ")"
    if k == "dismax":
        return "DISMAX(" + ", ".join(show(s) for s in spec[1]) + ")"
    if k == "not":
        return "NOT " + show(spec[1])
    if k in ("andnot", "andmaybe", "require"):
        return "(%s %s %s)" % (show(spec[1]), k.upper(), show(spec[2]))
    if k == "boost":
        return "%s^%s" % (show(spec[1]), spec[2])
    return "%s(%s)" % (k, ", ".join(repr(x) for x in spec[1:]))


# -- spec -> whoosh query ------------------------------------------------------

def build(spec, schema=None):
    from whoosh import query
    k = spec[0]
    if k == "term":
        return query.Term(spec[1], spec[2])
    if k == "and":
        return query.And([build(s, schema) for s in spec[1]])
    if k == "or":
        return query.Or([build(s, schema) for s in spec[1]])
    if k == "dismax":
        return query.DisjunctionMax([build(s, schema) for s in spec[1]],
                                    tiebreak=spec[2] if len(spec) > 2 else 0.0)
    if k == "not":
        return query.Not(build(spec[1], schema))
    if k == "andnot":
        return query.AndNot(build(spec[1], schema), build(spec[2], schema))
    if k == "andmaybe":
        return query.AndMaybe(build(spec[1], schema), build(spec[2], schema))
    if k == "require":
        return query.Require(build(spec[1], schema), build(spec[2], schema))
    if k == "boost":
        return build(spec[1], schema).with_boost(spec[2])
    if k == "const":
        return query.ConstantScoreQuery(build(spec[1], schema), spec[2])
    if k == "phrase":
        return query.Phrase(spec[1], list(spec[2]), slop=spec[3])
    if k == "prefix":
        return query.Prefix(spec[1], spec[2])
    if k == "wildcard":
        return query.Wildcard(spec[1], spec[2])
    if k == "regex":
        return query.Regex(spec[1], spec[2])
    if k == "termrange":
        return query.TermRange(spec[1], spec[2], spec[3], spec[4], spec[5])
    if k == "numrange":
        return query.NumericRange(spec[1], spec[2], spec[3], spec[4], spec[5])
    if k == "fuzzy":
        return query.FuzzyTerm(spec[1], spec[2], maxdist=spec[3], prefixlength=spec[4])
    if k == "daterange":
        return query.DateRange(spec[1], spec[2], spec[3], spec[4], spec[5])
    if k == "every":
        return query.Every()
    if k == "everyfield":
        return query.Every(spec[1])
    if k == "null":
        return query.NullQuery
    raise ValueError("unknown query spec %r" % (spec,))


class Ambiguous(Exception):
    """The documentation does not settle what this query matches on this corpus."""


# -- reference evaluator -----------------------------------------------------

def _text_terms(d, f):
    return d.postings.get(f, {})


def _positions(d, f, tb, schema):
    p = d.postings.get(f, {}).get(tb)
    if p is None:
        return []
    return schema[f].format.decode_positions(p[2])


def damerau_levenshtein(a, b, limit):
    """Optimal-string-alignment distance (insert, delete, substitute,
    transpose adjacent), the distance documented for fuzzy matching."""
    la, lb = len(a), len(b)
    if abs(la - lb) > limit:
        return limit + 1
    prev2 = None
    prev = list(range(lb + 1))
    for i in range(1, la + 1):
        cur = [i] + [0] * lb
        for j in range(1, lb + 1):
            cost = 0 if a[i - 1] == b[j - 1] else 1
            v = min(prev[j] + 1, cur[j - 1] + 1, prev[j - 1] + cost)
            if i > 1 and j > 1 and a[i - 1] == b[j - 2] and a[i - 2] == b[j - 1]:
                v = min(v, prev2[j - 2] + 1)
            cur[j] = v
        prev2, prev = prev, cur
    return prev[lb]


def levenshtein(a, b):
    prev = list(range(len(b) + 1))
    for i in range(1, len(a) + 1):
        cur = [i] + [0] * len(b)
        for j in range(1, len(b) + 1):
            cur[j] = min(prev[j] + 1, cur[j - 1] + 1,
                         prev[j - 1] + (0 if a[i - 1] == b[j - 1] else 1))
        prev = cur
    return prev[len(b)]


def evaluate(spec, docs, schema):
    """Set of uids of ``docs`` (the live documents) satisfying spec."""
    k = spec[0]
    if k == "term":
        f = spec[1]
        if f not in schema.names():
            return set()
        try:
            tb = schema[f].to_bytes(spec[2])
        except ValueError:
            return set()
        return set(d.uid for d in docs if tb in d.postings.get(f, {}))
    if k == "and":
        subs = [evaluate(s, docs, schema) for s in spec[1]]
        if not subs:
            return set()
        out = subs[0]
        for s in subs[1:]:
            out = out & s
        return out
    if k in ("or", "dismax"):
        out = set()
        for s in spec[1]:
            out |= evaluate(s, docs, schema)
        return out
    if k == "not":
        return set(d.uid for d in docs) - evaluate(spec[1], docs, schema)
    if k == "andnot":
        return evaluate(spec[1], docs, schema) - evaluate(spec[2], docs, schema)
    if k == "andmaybe":
        return evaluate(spec[1], docs, schema)
    if k == "require":
        return evaluate(spec[1], docs, schema) & evaluate(spec[2], docs, schema)
    if k in ("boost", "const"):
        return evaluate(spec[1], docs, schema)
    if k == "phrase":
        f, words, slop = spec[1], spec[2], spec[3]
        if f not in schema.names():
            return set()
        field = schema[f]
        out = set()
        for d in docs:
            ends = None
            ok = True
            for w in words:
                ps = _positions(d, f, field.to_bytes(w), schema)
                if not ps:
                    ok = False
                    break
                if ends is None:
                    ends = set(ps)
                else:
                    ends = set(p for p in ps
                               if any(1 <= p - e <= slop for e in ends))
                    if not ends:
                        ok = False
                        break
            if ok and ends:
                out.add(d.uid)
        return out
    if k in ("prefix", "wildcard", "regex", "termrange", "fuzzy"):
        f = spec[1]
        if f not in schema.names():
            return set()
        field = schema[f]
        if k == "prefix":
            pb = spec[2].encode("utf-8")
            test = lambda tb: tb.startswith(pb)
        elif k == "wildcard":
            rx = re.compile(fnmatch.translate(spec[2]))
            test = lambda tb: rx.match(tb.decode("utf-8")) is not None
        elif k == "regex":
            # "terms that match a regular expression" in the sense of re.match
            # (anchored at the start only), as the Regex docstring refers to
            rx = re.compile(spec[2])
            test = lambda tb: rx.match(tb.decode("utf-8")) is not None
        elif k == "termrange":
            lo, hi, lox, hix = spec[2], spec[3], spec[4], spec[5]
            lob = lo.encode("utf-8") if lo is not None else None
            hib = hi.encode("utf-8") if hi is not None else None

            def test(tb):
                if lob is not None and (tb < lob or (lox and tb == lob)):
                    return False
                if hib is not None and (tb > hib or (hix and tb == hib)):
                    return False
                return True
        else:
            word, maxdist, plen = spec[2], spec[3], spec[4]

            def test(tb):
                t = tb.decode("utf-8")
                if t[:plen] != word[:plen]:
                    return False
                a = damerau_levenshtein(word, t, maxdist) <= maxdist
                if a != (levenshtein(word, t) <= maxdist):
                    # the documented readings of the distance disagree on this term (C19's business)
                    raise Ambiguous("%r vs %r at distance %d" % (word, t, maxdist))
                return a
        return set(d.uid for d in docs
                   if any(test(tb) for tb in d.postings.get(f, {})))
    if k in ("numrange", "daterange"):
        f, lo, hi, lox, hix = spec[1:6]
        out = set()
        for d in docs:
            v = d.fields.get(f)
            if v is None or f not in d.postings:
                continue
            if lo is not None and (v < lo or (lox and v == lo)):
                continue
            if hi is not None and (v > hi or (hix and v == hi)):
                continue
            out.add(d.uid)
        return out
    if k == "every":
        return set(d.uid for d in docs)
    if k == "everyfield":
        return set(d.uid for d in docs if d.postings.get(spec[1]))
    if k == "null":
        return set()
    raise ValueError("unknown query spec %r" % (spec,))


# -- generator ---------------------------------------------------------------------

def _leaf(rng, cfg, kinds=None):
    vocab = cfg.vocab
    fields = cfg.fields
    tfields = [f for f in fields if f in ("t", "tc", "tb", "tv")]
    posfields = [f for f in fields if f in ("t", "tc", "tv")]
    choices = ["term"] * 6 + ["kterm"]
    if kinds != "simple":
        choices += ["prefix", "wildcard", "termrange", "every", "phrase", "phrase"]
        if "kw" in fields:
            choices += ["kwterm", "kwterm"]
        if "n" in fields:
            choices += ["numrange", "numterm"]
        if "nu" in fields:
            choices += ["numrange_u", "numrange_u"]
        if "b" in fields:
            choices += ["boolterm"]
        if "dt" in fields:
            choices += ["daterange", "daterange"]
        choices += ["everyfield", "regex", "fuzzy"]
    c = rng.choice(choices)
    if c == "term":
        return ["term", rng.choice(tfields), rng.choice(vocab)]
    if c == "kterm":
        return ["term", "k", u"k%03d" % rng.randrange(12)]
    if c == "kwterm":
        return ["term", "kw", rng.choice(vocab)]
    if c == "numterm":
        return ["term", "n", rng.choice((0, 1, -1, 7, rng.randint(-50, 50)))]
    if c == "boolterm":
        return ["term", "b", rng.random() < 0.5]
    if c == "prefix":
        w = rng.choice(vocab)
        return ["prefix", rng.choice(tfields), w[:rng.randint(1, 2)]]
    if c == "wildcard":
        w = rng.choice(vocab)
        i = rng.randint(1, len(w))
        j = rng.randint(0, min(i, len(w) - 1))
        # (head*tail where head and tail overlap in the word itself: "alf*fa" must not match "alfa")
        pat = rng.choice((w[0] + "*", "*" + w[-1], w[0] + "?" * (len(w) - 1), "*" + w[1:3] + "*",
                          w[:i] + "*" + w[j:], w[:i] + "*" + w[j:], w[:2] + "*" + w[-2:]))
        return ["wildcard", rng.choice(tfields), pat]
    if c == "regex":
        w = rng.choice(vocab)
        i = rng.randint(1, max(1, len(w) - 1))
        return ["regex", rng.choice(tfields), rng.choice((w[0] + ".*", ".*" + w[-1], "[a-m].*", w,
                                                          # a quantifier right after the literal prefix (may mean zero times)
                                                          w[:i] + "{0,1}" + w[i:], w[:i] + "?" + w[i:], w[:i] + "*" + w[i:],
                                                          w[:i] + "{1,2}" + w[i:], w[:i] + "x{0,2}" + w[i:]))]
    if c == "termrange":
        a, b = sorted((rng.choice(vocab), rng.choice(vocab)))
        if rng.random() < 0.2:
            a = None
        if rng.random() < 0.2:
            b = None
        return ["termrange", rng.choice(tfields), a, b, rng.random() < 0.5, rng.random() < 0.5]
    if c == "numrange_u":
        # an unsigned field: ranges that end at small values, at the top of the type, open ends
        pick = lambda: rng.choice((0, 1, 5, 20, 255, 256, 65535, rng.randint(0, 30), rng.randint(0, 65535)))
        a, b = sorted((pick(), pick()))
        if rng.random() < 0.2:
            a = None
        if rng.random() < 0.2:
            b = None
        return ["numrange", "nu", a, b, rng.random() < 0.5, rng.random() < 0.5]
    if c == "numrange":
        a, b = sorted((rng.randint(-60, 60), rng.randint(-60, 60)))
        if rng.random() < 0.2:
            a = None
        if rng.random() < 0.2:
            b = None
        return ["numrange", "n", a, b, rng.random() < 0.5, rng.random() < 0.5]
    if c == "fuzzy":
        w = rng.choice(vocab)
        i = rng.randrange(len(w))
        how = rng.randrange(3)
        if how == 0:
            w2 = w[:i] + rng.choice("abcdefghijklmnopqrstuvwxyz") + w[i + 1:]
        elif how == 1 and len(w) > 2:
            w2 = w[:i] + w[i + 1:]
        else:
            w2 = w[:i] + rng.choice("aeioux") + w[i:]
        return ["fuzzy", rng.choice(tfields), w2, rng.choice((1, 1, 2)), rng.choice((0, 0, 1))]
    if c == "daterange":
        import datetime

        def dtv():
            return datetime.datetime(rng.randint(1990, 2030), rng.randint(1, 12), rng.randint(1, 28), rng.randint(0, 23))
        a, b = sorted((dtv(), dtv()))
        if rng.random() < 0.15:
            a = None
        if rng.random() < 0.15:
            b = None
        return ["daterange", "dt", a, b, rng.random() < 0.5, rng.random() < 0.5]
    if c == "every":
        return ["every"]
    if c == "everyfield":
        return ["everyfield", rng.choice([f for f in fields if f in ("t", "tc", "tb", "tv", "kw")])]
    if c == "phrase":
        if not posfields:
            return ["term", rng.choice(tfields), rng.choice(vocab)]
        return ["phrase", rng.choice(posfields),
                [rng.choice(vocab) for _ in range(rng.randint(2, 3))],
                rng.choice((1, 1, 2, 3))]
    raise AssertionError(c)


def gen_query(rng, cfg, depth=2, simple=False):
    if depth <= 0 or rng.random() < 0.3:
        q = _leaf(rng, cfg, "simple" if simple else None)
    else:
        ops = ["and", "or", "or", "andnot", "not"]
        if not simple:
            ops += ["andmaybe", "require", "dismax"]
        c = rng.choice(ops)
        sub = lambda: gen_query(rng, cfg, depth - 1, simple)
        if c in ("and", "or"):
            q = [c, [sub() for _ in range(rng.randint(2, 4 if c == "or" else 3))]]
        elif c == "dismax":
            q = ["dismax", [sub() for _ in range(rng.randint(2, 3))], rng.choice((0.0, 0.3))]
        elif c == "not":
            q = ["not", sub()]
        else:
            q = [c, sub(), sub()]
    if not simple and rng.random() < 0.15:
        q = ["boost", q, rng.choice((0.5, 2.0, 3.0))]
    return q


def gen_shaped_query(rng, cfg):
    """Query shapes in which composite matchers sit under other composites
    (negation over an intersection, optional over union, ...): the shapes
    where cursor re-synchronisation and bound propagation go wrong."""
    tfields = [f for f in cfg.fields if f in ("t", "tc", "tb", "tv")]

    def t():
        return ["term", rng.choice(tfields), rng.choice(cfg.vocab)]

    def conj():
        return ["and", [t(), t()]]

    def disj():
        return ["or", [t() for _ in range(rng.choice((2, 3)))]]
    shapes = [
        lambda: ["andnot", conj(), t()],
        lambda: ["andnot", disj(), t()],
        lambda: ["andnot", conj(), disj()],
        lambda: ["and", [conj(), ["not", t()]]],
        lambda: ["or", [["andnot", t(), t()], t()]],
        lambda: ["andmaybe", conj(), t()],
        lambda: ["andmaybe", t(), conj()],
        lambda: ["andmaybe", disj(), disj()],
        lambda: ["require", disj(), t()],
        lambda: ["require", conj(), disj()],
        lambda: ["dismax", [conj(), t()], 0.0],
        lambda: ["dismax", [disj(), conj()], 0.0],
        lambda: ["and", [disj(), disj()]],
        lambda: ["and", [["or", [t(), t()]], t()]],
        lambda: ["andmaybe", t(), ["or", [t(), t()]]],
        lambda: ["or", [["or", [t(), t()]], conj()]],
        lambda: ["and", [t(), t(), t()]],
        lambda: ["or", [conj(), conj()]],
        lambda: ["andnot", ["andmaybe", t(), t()], t()],
        lambda: ["and", [["phrase", rng.choice([f for f in tfields if f in ("t", "tc", "tv")] or ["t"]),
                          [rng.choice(cfg.vocab), rng.choice(cfg.vocab)], rng.choice((1, 2))], t()]],
    ]
    return rng.choice(shapes)()


def gen_phrase_from_docs(rng, docs, field="t"):
    """A phrase that really occurs (with gaps) in one of the documents: 2-4 of its words in
    order, at most ``slop`` apart - so that slop, repeated words and chaining matter."""
    texts = [d[field].split() for d in docs if isinstance(d.get(field), str) and len(d[field].split()) >= 3]
    if not texts:
        return None
    words = rng.choice(texts)
    slop = rng.choice((1, 2, 2, 3))
    n = rng.randint(2, min(4, len(words)))
    i = rng.randrange(len(words))
    picked = [words[i]]
    while len(picked) < n:
        i += rng.randint(1, slop)
        if i >= len(words):
            break
        picked.append(words[i])
    if len(picked) < 2:
        return None
    return ["phrase", field, picked, slop]


def contains(spec, kinds):
    if spec[0] in kinds:
        return True
    for x in spec[1:]:
        if isinstance(x, list):
            if x and isinstance(x[0], str) and x[0] in _ALL_KINDS:
                if contains(x, kinds):
                    return True
            else:
                for y in x:
                    if isinstance(y, list) and y and isinstance(y[0], str) and y[0] in _ALL_KINDS:
                        if contains(y, kinds):
                            return True
    return False


_ALL_KINDS = set(["term", "and", "or", "dismax", "not", "andnot", "andmaybe",
                  "require", "boost", "const", "phrase", "prefix", "wildcard",
                  "regex", "termrange", "numrange", "daterange", "fuzzy", "every",
                  "everyfield", "null"])
