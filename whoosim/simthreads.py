"""Simulated threading / multiprocessing primitives that block in the
kernel's scheduler, never in the OS."""

import copy
import pickle
import queue as _real_queue

from whoosim.kernel import HarnessError


class SimLock(object):
    """threading.Lock look-alike."""

    def __init__(self, kernel, name=""):
        self._k = kernel
        self._owner = None
        self.name = name

    def acquire(self, blocking=True, timeout=-1):
        k = self._k
        k.event("lock.acquire", self.name)
        if self._owner is None:
            self._owner = k.current
            k.post_event("locked", self.name)
            return True
        k.count("simlock_contended")
        if not blocking:
            return False
        k.count("simlock_blocked")
        if "WRITELOCK" in self.name:
            k.count("writelock_blocking_wait")
        ok = k.block_until(lambda: self._owner is None,
                           timeout=None if timeout is None or timeout < 0 else timeout,
                           desc="Lock")
        if not ok:
            return False
        self._owner = k.current
        k.post_event("locked", self.name)
        return True

    def release(self):
        k = self._k
        k.event("lock.release", self.name)
        if self._owner is None:
            raise RuntimeError("release unlocked lock")
        self._owner = None
        k.post_event("unlocked", self.name)

    def locked(self):
        return self._owner is not None

    def __enter__(self):
        self.acquire()
        return self

    def __exit__(self, *a):
        self.release()


class SimRLock(object):
    def __init__(self, kernel):
        self._k = kernel
        self._owner = None
        self._count = 0

    def acquire(self, blocking=True, timeout=-1):
        k = self._k
        k.event("rlock.acquire")
        me = k.current
        if self._owner is me:
            self._count += 1
            return True
        if self._owner is not None:
            if not blocking:
                return False
            k.count("simrlock_blocked")
            ok = k.block_until(lambda: self._owner is None,
                               timeout=None if timeout is None or timeout < 0 else timeout,
                               desc="RLock")
            if not ok:
                return False
        self._owner = me
        self._count = 1
        return True

    def release(self):
        k = self._k
        k.event("rlock.release")
        if self._owner is not k.current:
            raise RuntimeError("cannot release un-acquired lock")
        self._count -= 1
        if self._count == 0:
            self._owner = None

    def __enter__(self):
        self.acquire()
        return self

    def __exit__(self, *a):
        self.release()


class SimThread(object):
    """threading.Thread look-alike (subclassable: run())."""

    def __init__(self, group=None, target=None, name=None, args=(),
                 kwargs=None, daemon=None):
        self._target = target
        self._args = args
        self._kwargs = kwargs or {}
        self.name = name or "Thread"
        self.daemon = bool(daemon)
        self._task = None

    def run(self):
        if self._target is not None:
            self._target(*self._args, **self._kwargs)

    def start(self):
        sim_thread_start(self)

    def join(self, timeout=None):
        sim_thread_join(self, timeout)

    def is_alive(self):
        return sim_thread_is_alive(self)

    isAlive = is_alive


_KERNEL = [None]


def set_kernel(k):
    _KERNEL[0] = k


def kernel():
    k = _KERNEL[0]
    if k is None:
        raise HarnessError("no simulation kernel is active")
    return k


def sim_thread_start(self):
    k = kernel()
    if getattr(self, "_task", None) is not None:
        raise RuntimeError("threads can only be started once")
    # (thread names such as "Thread-7" come from a process-global counter:
    # never let them into the event log)
    k.event("thread.start", type(self).__name__)
    k.count("thread_started")
    self._task = k.spawn(self.run, "thr:%s" % type(self).__name__,
                         daemon=bool(getattr(self, "daemon", False)))


def sim_thread_join(self, timeout=None):
    k = kernel()
    t = getattr(self, "_task", None)
    if t is None:
        raise RuntimeError("cannot join thread before it is started")
    k.event("thread.join")
    k.block_until(lambda: t.state == "done", timeout=timeout, desc="join")


def sim_thread_is_alive(self):
    t = getattr(self, "_task", None)
    return t is not None and t.state != "done"


class SimTimer(SimThread):
    """threading.Timer look-alike: a task that sleeps then calls."""

    def __init__(self, interval, function, args=None, kwargs=None):
        SimThread.__init__(self, name="Timer")
        self.interval = interval
        self.function = function
        self.args = args or []
        self.kwargs = kwargs or {}
        self._cancelled = False
        self._fired = False
        self.daemon = True
        k = kernel()
        if not hasattr(k, "sim_timers"):
            k.sim_timers = []
        k.sim_timers.append(self)

    def cancel(self):
        kernel().event("timer.cancel")
        self._cancelled = True

    def run(self):
        k = kernel()
        k.block_until(lambda: self._cancelled, timeout=self.interval,
                      desc="timer")
        if not self._cancelled:
            self._fired = True
            k.event("timer.fire")
            k.count("timer_fired")
            self.function(*self.args, **self.kwargs)


class SimThreadingModule(object):
    """Replacement for the ``threading`` module global inside whoosh.*"""

    def __init__(self, k):
        self._k = k
        self.Thread = SimThread
        self.Timer = SimTimer

    def Lock(self):
        return SimLock(self._k)

    def RLock(self):
        return SimRLock(self._k)

    def current_thread(self):
        return self._k.current

    def __getattr__(self, name):
        raise HarnessError("threading.%s is not simulated" % name)


# -- multiprocessing ---------------------------------------------------------

class SimQueue(object):
    """multiprocessing.Queue look-alike: items are pickled on put (copy
    semantics); a put becomes visible to getters only after a feeder delay
    drawn from the schedule stream."""

    Empty = _real_queue.Empty
    Full = _real_queue.Full

    def __init__(self, maxsize=0):
        k = kernel()
        self._k = k
        self._maxsize = maxsize
        self._items = []  # (visible_at_us, bytes)
        self._rng = k.stream("queue")

    def __reduce__(self):
        raise HarnessError("SimQueue must not be pickled")

    def _visible(self):
        return bool(self._items) and self._items[0][0] <= self._k.now_us

    def put(self, obj, block=True, timeout=None):
        k = self._k
        k.event("queue.put")
        data = pickle.dumps(obj, 2)
        if self._maxsize and len(self._items) >= self._maxsize:
            if not block:
                raise self.Full
            ok = k.block_until(lambda: len(self._items) < self._maxsize,
                               timeout=timeout, desc="queue.put")
            if not ok:
                raise self.Full
        delay = self._rng.choice((0, 0, 100, 2000, 20000))
        vis = k.now_us + delay
        if self._items and self._items[-1][0] > vis:
            vis = self._items[-1][0]
        self._items.append((vis, data))

    def get(self, block=True, timeout=None):
        k = self._k
        k.event("queue.get")
        if not self._visible():
            if not block:
                raise self.Empty
            # wake when something is visible: poll on simulated time
            deadline = None if timeout is None else k.now_us + int(timeout * 1e6)
            while not self._visible():
                if deadline is not None and k.now_us >= deadline:
                    raise self.Empty
                if self._items:
                    wait = max(1, self._items[0][0] - k.now_us) / 1e6
                    if deadline is not None:
                        wait = min(wait, max(1e-6, (deadline - k.now_us) / 1e6))
                    k.block_until(None, timeout=wait, desc="queue.get(feeder)")
                else:
                    rem = None if deadline is None else max(1e-6, (deadline - k.now_us) / 1e6)
                    k.block_until(lambda: bool(self._items), timeout=rem,
                                  desc="queue.get")
        vis, data = self._items.pop(0)
        return pickle.loads(data)

    def get_nowait(self):
        return self.get(block=False)

    def put_nowait(self, obj):
        return self.put(obj, block=False)

    def empty(self):
        return not self._visible()

    def qsize(self):
        return len(self._items)

    def close(self):
        pass

    def join_thread(self):
        pass

    def cancel_join_thread(self):
        pass


def sim_process_start(self):
    """Replacement for multiprocessing.Process.start: the child is a task in
    a new simulated process whose state is a pickle-copy of the parent's
    object (as fork would copy it), sharing only SimQueues."""
    k = kernel()
    k.event("process.start")
    k.count("process_started")
    child = copy.copy(self)
    for name, val in list(vars(self).items()):
        if isinstance(val, SimQueue) or name.startswith("_") or callable(val):
            continue
        try:
            setattr(child, name, pickle.loads(pickle.dumps(val, 2)))
        except Exception:
            setattr(child, name, copy.deepcopy(val))
    proc = k.new_proc("sub")
    proc.cwd = k.current.proc.cwd
    self._sim_child = child
    self._task = k.spawn(child.run, "proc:%s" % type(self).__name__, proc=proc)


def sim_process_join(self, timeout=None):
    k = kernel()
    t = getattr(self, "_task", None)
    if t is None:
        raise AssertionError("can only join a started process")
    k.event("process.join")
    k.block_until(lambda: t.state == "done", timeout=timeout, desc="process.join")


def sim_process_is_alive(self):
    t = getattr(self, "_task", None)
    return t is not None and t.state != "done"
