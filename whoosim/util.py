"""Small helpers: tagged JSON for replay files, tree digest of /repo."""

import datetime
import hashlib
import json
import os
from decimal import Decimal


def enc(o):
    if isinstance(o, bool) or o is None or isinstance(o, (int, str)):
        return o
    if isinstance(o, float):
        if o != o or o in (float("inf"), float("-inf")) or (o == 0 and str(o) == "-0.0"):
            return {"$f": repr(o)}
        return o
    if isinstance(o, bytes):
        return {"$b": o.hex()}
    if isinstance(o, datetime.datetime):
        return {"$dt": o.isoformat()}
    if isinstance(o, Decimal):
        return {"$dec": str(o)}
    if isinstance(o, tuple):
        return {"$t": [enc(x) for x in o]}
    if isinstance(o, list):
        return [enc(x) for x in o]
    if isinstance(o, (set, frozenset)):
        return {"$set": [enc(x) for x in sorted(o, key=repr)]}
    if isinstance(o, dict):
        if all(isinstance(k, str) and not k.startswith("$") for k in o):
            return dict((k, enc(v)) for k, v in o.items())
        return {"$d": [[enc(k), enc(v)] for k, v in o.items()]}
    return {"$repr": repr(o)}


def dec(o):
    if isinstance(o, list):
        return [dec(x) for x in o]
    if isinstance(o, dict):
        if len(o) == 1:
            (k, v), = o.items()
            if k == "$f":
                return float(v)
            if k == "$b":
                return bytes.fromhex(v)
            if k == "$dt":
                return datetime.datetime.fromisoformat(v)
            if k == "$dec":
                return Decimal(v)
            if k == "$t":
                return tuple(dec(x) for x in v)
            if k == "$set":
                return set(dec(x) for x in v)
            if k == "$d":
                return dict((dec(a), dec(b)) for a, b in v)
            if k == "$repr":
                return v
        return dict((k, dec(v)) for k, v in o.items())
    return o


def dumps(o, **kw):
    return json.dumps(enc(o), sort_keys=True, **kw)


def loads(s):
    return dec(json.loads(s))


def tree_digest(root=None):
    root = root or (os.environ.get("WHOOSIM_REPO", "/repo") + "/src/whoosh")
    h = hashlib.sha256()
    for d, dirs, files in sorted(os.walk(root)):
        dirs.sort()
        for f in sorted(files):
            if f.endswith(".py"):
                p = os.path.join(d, f)
                h.update(p.encode())
                with open(p, "rb") as fh:
                    h.update(hashlib.sha256(fh.read()).digest())
    return h.hexdigest()
