"""Simulation kernel: tasks (baton-passing real threads), seeded scheduler,
discrete-event clock, event log and digest, PRNG streams.

Exactly one task runs at any time.  Every OS-visible operation and every
blocking primitive of the simulated system calls ``Kernel.event`` or
``Kernel.block_until``; those are the only places where control moves from
one task to another, and the choice is made by the scheduler from the
``schedule`` PRNG stream (or from a recorded schedule when replaying).
"""

import hashlib
import os
import random
import sys
import threading
import traceback


class SimKilled(BaseException):
    """Raised inside a task whose simulated process has been killed."""


class SimAbort(BaseException):
    """Raised inside every task when a run is torn down (deadlock, step cap)."""


class HarnessError(Exception):
    """The simulator itself failed (never a verdict about Whoosh)."""


class Deadlock(Exception):
    def __init__(self, info):
        Exception.__init__(self, "deadlock")
        self.info = info


EPOCH_US = 1_700_000_000_000_000


import itertools

# Descriptor numbers are unique per interpreter and far above any real
# descriptor: a stale Whoosh object finalised after its run (FcntlLock.__del__)
# must never close a real descriptor or one of a later simulation.
_FD_COUNTER = itertools.count(1000000)


class Proc(object):
    """A simulated OS process: pid, descriptor table, open file objects."""

    def __init__(self, pid, name):
        self.pid = pid
        self.name = name
        self.alive = True
        self.fds = {}
        self.files = []  # open SimFile objects (for tearing on kill)
        self.cwd = "/"

    def __repr__(self):
        return "<Proc %s %s>" % (self.pid, self.name)


# library files whose objects are shared between threads of one process (line pre-emption)
LINE_FILES = ("writing.py", "index.py", "filedb/filestore.py", "util/filelock.py", "util/__init__.py",
              "codec/memory.py", "filedb/compound.py")


class Task(object):
    def __init__(self, kernel, tid, name, proc, fn):
        self.kernel = kernel
        self.id = tid
        self.name = name
        self.proc = proc
        self.fn = fn
        self.sem = threading.Semaphore(0)
        self.state = "new"  # new, ready, done
        self.wait_pred = None
        self.wake_at = None
        self.exc = None
        self.exc_tb = None
        self.result = None
        self.thread = None
        self.reaper = None
        self.daemon = False
        self.wait_desc = ""
        self.in_event = 0

    def runnable(self, now):
        if self.state != "ready":
            return False
        if not self.proc.alive:
            return True
        if self.wait_pred is None and self.wake_at is None:
            return True
        if self.wait_pred is not None and self.wait_pred():
            return True
        if self.wake_at is not None and now >= self.wake_at:
            return True
        return False

    def __repr__(self):
        return "<Task %s %s %s>" % (self.id, self.name, self.state)


class Kernel(object):
    def __init__(self, seed, policy=None, replay_schedule=None,
                 max_events=200000, keep_log=False, latency=(50, 2000)):
        self.seed = seed
        self._streams = {}
        self.policy = policy or ("sticky", 0.9)
        self._pct = None
        self._yield_hint = False
        self.gc_tick_p = 0.0
        self._gc_rng = random.Random("%s/gc" % (seed,))
        self.replay_schedule = replay_schedule
        self._replay_pos = 0
        self.schedule = []  # recorded choices (task ids) at decision points
        self.switches = 0
        self.switch_sig = hashlib.sha256()
        self.max_events = max_events
        self._cap_at = max_events
        self.keep_log = keep_log
        self.log = []
        self.seq = 0
        self.digest = hashlib.sha256()
        self.now_us = EPOCH_US
        self.latency = latency
        self._lat_rng = self.stream("latency")
        self._sched_rng = self.stream("schedule")
        self.tasks = []
        self.procs = []
        self.current = None
        self.aborting = False
        self.abort_reason = None
        self.deadlock = None
        self.event_hooks = []
        self.post_hooks = []
        self.counters = {}
        self.kind_counts = {}
        self.active = True
        self.main = None
        self._next_pid = 100
        self._lines = None

    # -- PRNG streams -----------------------------------------------------

    def stream(self, name):
        r = self._streams.get(name)
        if r is None:
            r = random.Random("%s/%s" % (self.seed, name))
            self._streams[name] = r
        return r

    def count(self, name, n=1):
        self.counters[name] = self.counters.get(name, 0) + n

    # -- clock ------------------------------------------------------------

    def time(self):
        return self.now_us / 1e6

    def advance(self, seconds):
        self.now_us += int(seconds * 1e6)

    # -- processes and tasks ----------------------------------------------

    def new_proc(self, name):
        p = Proc(self._next_pid, name)
        self._next_pid += 1
        self.procs.append(p)
        return p

    def bind_main(self, proc=None, name="main"):
        """Make the calling thread task 0."""
        if proc is None:
            proc = self.new_proc(name)
        t = Task(self, len(self.tasks), name, proc, None)
        t.state = "ready"
        t.thread = threading.current_thread()
        self.tasks.append(t)
        self.current = t
        self.main = t
        return t

    def spawn(self, fn, name, proc=None, daemon=False):
        """Create a new task (a parked real thread). It becomes runnable at
        once but runs only when the scheduler picks it."""
        if proc is None:
            proc = self.current.proc
        t = Task(self, len(self.tasks), name, proc, fn)
        t.daemon = daemon
        t.state = "ready"
        th = threading.Thread(target=self._task_body, args=(t,),
                              name="sim-%s" % name)
        th.daemon = True
        t.thread = th
        self.tasks.append(t)
        th.start()
        return t

    # -- line-level pre-emption -------------------------------------------
    #
    # Storage operations, lock operations and sleeps are scheduling points of their own. Races
    # between two Python statements with no such call in between (a check-then-insert on a dict
    # shared by threads, an attribute swapped outside a lock) need pre-emption where real CPython
    # can pre-empt: between any two lines. In runs that enable it, every task thread traces the
    # "line" events of the library files whose objects are shared between threads; at a
    # seed-chosen subset of them (probability p per line, at most `budget` per run) the task
    # announces a "line" event, at which another runnable task is switched to.

    def enable_lines(self, p, budget, files=None):
        if files is None:
            import whoosh
            base = os.path.dirname(os.path.abspath(whoosh.__file__))
            files = [os.path.join(base, f) for f in LINE_FILES]
        self._lines = {"p": p, "left": budget, "rng": self.stream("lines"), "files": frozenset(files), "seen": 0, "visits": {},
                       "salt": self.stream("lines").getrandbits(62)}
        # memo tables that survive from one run to the next would make the second run of a seed execute fewer lines
        from whoosh.util import fib
        fib(64)

    def _trace_global(self, frame, event, arg):
        if frame.f_code.co_filename in self._lines["files"]:
            return self._trace_local
        return None

    def _trace_local(self, frame, event, arg):
        if event == "line":
            st = self._lines
            st["seen"] += 1
            # the n-th visit of a line is pre-empted with probability p/n: initialisation paths and
            # rarely taken branches (where check-then-act races live) count as much as hot loops
            key = (frame.f_code, frame.f_lineno)
            n = st["visits"].get(key, 0) + 1
            st["visits"][key] = n
            # the coin is a function of (run seed, code location, n) alone, not of how many other
            # lines ran before: a memo hit elsewhere must not shift every later decision
            co = frame.f_code
            if st["left"] > 0 and (hash((st["salt"], co.co_name, frame.f_lineno, n)) % 1000003) * n < st["p"] * 1000003:
                cur = self.current
                if (cur is not None and not cur.in_event and cur.thread is threading.current_thread()
                        and not self.aborting and cur.proc.alive and len(self._runnable(exclude=cur)) > 0):
                    st["left"] -= 1
                    self.counters["line_preemptions"] = self.counters.get("line_preemptions", 0) + 1
                    co = frame.f_code
                    self._force_other = True
                    try:
                        self.event("line", "%s:%s:%d" % (os.path.basename(co.co_filename), co.co_name, frame.f_lineno))
                    finally:
                        self._force_other = False
        return self._trace_local

    def _task_body(self, t):
        t.sem.acquire()
        self.current = t
        if self._lines is not None:
            sys.settrace(self._trace_global)
        try:
            if self.aborting:
                raise SimAbort()
            if not t.proc.alive:
                raise SimKilled()
            t.result = t.fn()
        except SimKilled as e:
            t.exc = e
        except SimAbort as e:
            t.exc = e
        except BaseException as e:  # noqa
            t.exc = e
            t.exc_tb = traceback.format_exc()
        finally:
            self._task_exit(t)

    def _task_exit(self, t):
        t.state = "done"
        t.wait_pred = None
        t.wake_at = None
        if t.reaper is not None:
            r = t.reaper
            t.reaper = None
            self.current = r
            r.sem.release()
            return
        if self.aborting:
            self.current = self.main
            self.main.sem.release()
            return
        nxt = self._pick_next(exclude=t)
        if nxt is None:
            # nobody can run: deadlock among the remaining tasks
            self._declare_deadlock()
            self.current = self.main
            self.main.sem.release()
            return
        self.current = nxt
        nxt.sem.release()

    # -- scheduling -------------------------------------------------------

    def _runnable(self, exclude=None):
        now = self.now_us
        return [t for t in self.tasks
                if t is not exclude and t.runnable(now)]

    def _pick_next(self, exclude=None):
        """Choose the next task to run, advancing the clock over idle
        periods. Returns None when nothing can ever run (deadlock) or all
        tasks are done."""
        while True:
            run = self._runnable(exclude)
            if run:
                return self._choose(run, None)
            wakes = [t.wake_at for t in self.tasks
                     if t.state == "ready" and t is not exclude
                     and t.wake_at is not None]
            if not wakes:
                return None
            self.now_us = max(self.now_us, min(wakes))

    _force_other = False

    def _choose(self, run, cur):
        if len(run) == 1:
            return run[0]
        if self._force_other and self.replay_schedule is None and cur is not None:
            # a line pre-emption: the point of it is that somebody else runs now
            others = [t for t in run if t is not cur]
            chosen = others[self._sched_rng.randrange(len(others))]
            self.schedule.append(chosen.id)
            return chosen
        if self.replay_schedule is not None:
            chosen = None
            if self._replay_pos < len(self.replay_schedule):
                want = self.replay_schedule[self._replay_pos]
                self._replay_pos += 1
                for t in run:
                    if t.id == want:
                        chosen = t
                        break
            if chosen is None:
                chosen = cur if (cur is not None and cur in run) else run[0]
        else:
            kind = self.policy[0]
            rng = self._sched_rng
            if kind == "uniform":
                chosen = run[rng.randrange(len(run))]
            elif kind == "sticky":
                if cur is not None and cur in run and rng.random() < self.policy[1]:
                    chosen = cur
                else:
                    chosen = run[rng.randrange(len(run))]
            elif kind == "serial":
                chosen = cur if (cur is not None and cur in run) else run[0]
            elif kind == "pct":
                # priority scheduling with d change points (Burckhardt et al., PCT): every task
                # has a random priority, the highest runnable one runs, and at d event numbers
                # drawn in advance the running task drops below everybody else. Finds
                # "A runs undisturbed up to exactly here, then B runs to completion" orderings.
                if self._pct is None:
                    d, horizon = self.policy[1], self.policy[2]
                    self._pct = {"prio": {}, "low": 0,
                                 "points": sorted(rng.randrange(horizon) for _ in range(d))}
                st = self._pct
                for t in run:
                    if t.id not in st["prio"]:
                        st["prio"][t.id] = 1.0 + rng.random()
                if self._yield_hint and cur is not None:
                    st["low"] -= 1
                    st["prio"][cur.id] = float(st["low"])
                while st["points"] and st["points"][0] <= self.seq:
                    st["points"].pop(0)
                    if cur is not None:
                        st["low"] -= 1
                        st["prio"][cur.id] = float(st["low"])
                chosen = max(run, key=lambda t: (st["prio"][t.id], -t.id))
            else:
                raise HarnessError("unknown policy %r" % (self.policy,))
        self.schedule.append(chosen.id)
        return chosen

    def _switch_to(self, nxt):
        cur = self.current
        if nxt is cur:
            return
        self.switches += 1
        self.switch_sig.update(("%d>%d@%s;" % (cur.id, nxt.id, self._last_kind)).encode())
        self.current = nxt
        nxt.sem.release()
        cur.sem.acquire()
        # resumed
        self.current = cur
        self._check_alive(cur)

    _last_kind = ""

    def _check_alive(self, t):
        if self.aborting:
            raise SimAbort()
        if not t.proc.alive:
            raise SimKilled()

    def _declare_deadlock(self):
        info = []
        frames = sys._current_frames()
        for t in self.tasks:
            if t.state == "done":
                continue
            st = ""
            if t.thread is not None and t.thread.ident in frames:
                st = "".join(traceback.format_stack(frames[t.thread.ident])[-8:])
            info.append({"task": t.name, "waiting_for": t.wait_desc, "stack": st})
        self.deadlock = info
        self.aborting = True
        self.abort_reason = "deadlock"

    # -- the two entry points used by the simulated system ------------------

    def event(self, kind, detail=""):
        """An OS-visible operation (or workload step boundary) is about to
        happen in the current task."""
        cur = self.current
        if self.aborting:
            raise SimAbort()
        if not cur.proc.alive:
            raise SimKilled()
        cur.in_event += 1
        try:
            self._event(cur, kind, detail)
        finally:
            cur.in_event -= 1

    def _event(self, cur, kind, detail):
        self.seq += 1
        kc = self.kind_counts
        kc[kind] = kc.get(kind, 0) + 1
        if kind == "creat" and detail.endswith(".run"):
            self.counters["sort_pool_run_files"] = self.counters.get("sort_pool_run_files", 0) + 1
        line = "%d|%d|%s|%s\n" % (self.seq, cur.id, kind, detail)
        self.digest.update(line.encode("utf-8", "backslashreplace"))
        if self.keep_log:
            self.log.append((self.seq, cur.name, kind, detail))
        lo, hi = self.latency
        self.now_us += self._lat_rng.randint(lo, hi)
        if kind == "step" and self.gc_tick_p and self._gc_rng.random() < self.gc_tick_p:
            # when the cyclic garbage collector runs is one more thing a real deployment does not
            # control: inside a run it is switched off and fired here, at points the seed decides
            self.counters["gc_ticks"] = self.counters.get("gc_ticks", 0) + 1
            import gc
            gc.collect()
        if kind == "step":
            # the cap is a livelock guard, not a workload limit: every harness-level
            # operation (the "step" events) gets a fresh budget of max_events
            self._cap_at = self.seq + self.max_events
        if self.seq > self._cap_at:
            self.aborting = True
            self.abort_reason = "event cap exceeded (more than %d events inside one operation)" % self.max_events
            raise SimAbort()
        self._last_kind = kind
        for h in self.event_hooks:
            h(self, cur, kind, detail)
        if len(self.tasks) > 1:
            run = self._runnable()
            if cur not in run:
                run.append(cur)
                run.sort(key=lambda t: t.id)
            if len(run) > 1:
                nxt = self._choose(run, cur)
                if nxt is not cur:
                    self._switch_to(nxt)

    def post_event(self, kind, detail=""):
        """The operation announced by the last event() of this task has just
        taken effect (no scheduling, no log entry)."""
        for h in self.post_hooks:
            h(self, self.current, kind, detail)

    def yield_point(self, kind="yield"):
        """A pure pre-emption point (no OS-visible effect)."""
        self.event(kind)

    def block_until(self, pred, timeout=None, desc=""):
        """Block the current task until pred() is true or timeout (simulated
        seconds) elapses. Returns pred()'s final value."""
        cur = self.current
        self._check_alive(cur)
        if pred is not None and pred():
            return True
        cur.wait_pred = pred
        cur.wait_desc = desc
        cur.wake_at = None if timeout is None else self.now_us + int(timeout * 1e6)
        try:
            while True:
                if pred is not None and pred():
                    return True
                if cur.wake_at is not None and self.now_us >= cur.wake_at:
                    return False if pred is not None else True
                nxt = self._pick_next()
                if nxt is None:
                    self._declare_deadlock()
                    if cur is not self.main:
                        self.current = self.main
                        self.main.sem.release()
                        cur.sem.acquire()
                    raise SimAbort()
                if nxt is not cur:
                    self._last_kind = "block:" + desc
                    self._switch_to(nxt)
        finally:
            cur.wait_pred = None
            cur.wake_at = None
            cur.wait_desc = ""

    def sleep(self, seconds):
        if seconds <= 0:
            # sleep(0) is a yield: under priority scheduling the caller must not starve the rest
            self._yield_hint = True
        try:
            self.event("sleep", "%.6f" % seconds)
        finally:
            self._yield_hint = False
        if seconds <= 0:
            return
        if len(self.tasks) == 1:
            self.now_us += int(seconds * 1e6)
            return
        self.block_until(None, timeout=seconds, desc="sleep")

    # -- kill ---------------------------------------------------------------

    def reap_tasks_of(self, proc):
        """After proc.alive was set False: unwind every other task of that
        process synchronously (their seam calls raise SimKilled)."""
        cur = self.current
        for t in self.tasks:
            if t.proc is proc and t is not cur and t.state == "ready":
                t.reaper = cur
                self.current = t
                t.sem.release()
                cur.sem.acquire()
                self.current = cur

    # -- run teardown ---------------------------------------------------------

    def join_all(self):
        """Main task: wait until every non-daemon task is done."""
        def alldone():
            return all(t.state == "done" or t.daemon
                       for t in self.tasks if t is not self.main)
        self.block_until(alldone, desc="join_all")

    def shutdown(self):
        """Unwind whatever is left (called by main, in any state)."""
        self.aborting = True
        if self.abort_reason is None:
            self.abort_reason = "shutdown"
        main = self.main
        for t in self.tasks:
            if t is main or t.state == "done":
                continue
            self.current = t
            t.sem.release()
            main.sem.acquire()
        self.current = main
        for t in self.tasks:
            if t is not main and t.thread is not None:
                t.thread.join(5)
                if t.thread.is_alive():
                    raise HarnessError("task %s did not unwind" % t.name)
        self.active = False

    def event_digest(self):
        return self.digest.hexdigest()

    def interleaving_sig(self):
        return self.switch_sig.hexdigest()[:16]
