"""E-hist: one actor at a time; explicit operation histories executed against
the real index on the simulated machine and against the reference model."""

from whoosim.session import (Session, Violation, UserError, exc_sig,
                             compare_reader, find_docnum, INDEX_DIR)
from whoosim.kernel import SimAbort, SimKilled, HarnessError
from whoosim import queries as Q

MERGES = ("none", "default", "optimize", "clear", "custom")


def custom_policy(mask):
    def policy(writer, segments):
        from whoosh.reading import SegmentReader
        keep = []
        for i, seg in enumerate(segments):
            if (mask >> (i % 8)) & 1:
                r = SegmentReader(writer.storage, writer.schema, seg)
                writer.add_reader(r)
                r.close()
            else:
                keep.append(seg)
        return keep
    return policy


def gen_history(rng, cfg, docgen, ntx=(1, 5), maxops=6, p_cancel=0.1,
                p_raise=0.05, p_iofault=0.05, p_restart=0.3,
                update_only=False, schema_changes=False, merges=MERGES,
                p_delete=0.3, p_bad_add=0.0, p_schema=(0.15, 0.08)):
    """Returns a list of ops (JSON-able)."""
    ops = []
    vocab = cfg.vocab
    names = list(cfg.fields)
    for tx in range(rng.randint(*ntx)):
        ops.append(["writer", {}])
        if schema_changes and rng.random() < p_schema[0]:
            cand = [n for n in ("kw", "so", "n", "tv") if n not in names]
            if cand:
                nm = rng.choice(cand)
                names.append(nm)
                ops.append(["add_field", nm])
        elif schema_changes and rng.random() < p_schema[1]:
            cand = [n for n in names if n not in ("k", "u", "t") and "*" not in n]
            if cand:
                nm = rng.choice(cand)
                ops.append(["remove_field", nm])
                names.remove(nm)
        fault_at = None
        nops = rng.randint(1, maxops)
        end = rng.random()
        if end < p_iofault:
            fault_at = rng.randrange(nops)
        used_keys = set()
        for i in range(nops):
            if fault_at == i:
                ops.append(["arm_iofault", {"skip": rng.randint(0, 3),
                                            "errno": rng.choice(("EIO", "ENOSPC"))}])
            c = rng.random()
            if update_only:
                if c < 1 - p_delete:
                    key = rng.randrange(docgen.nkeys)
                    tries = 0
                    while key in used_keys and tries < 20:
                        key = rng.randrange(docgen.nkeys)
                        tries += 1
                    if key in used_keys:
                        continue
                    used_keys.add(key)
                    ops.append(["update", docgen.doc(key=key, fields_subset=list(names))])
                elif rng.random() < 0.7:
                    ops.append(["del_term", "k", u"k%03d" % rng.randrange(docgen.nkeys)])
                else:
                    ops.append(["del_uid", rng.randint(1, max(1, docgen.next_uid - 1)), "index"])
                continue
            if c < 1 - p_delete - 0.15:
                if rng.random() < 0.15:
                    ops.append(["group", [docgen.doc(fields_subset=list(names)) for _ in range(rng.randint(2, 4))]])
                else:
                    ops.append(["add", docgen.doc(fields_subset=list(names))])
            elif c < 1 - p_delete:
                ops.append(["update", docgen.doc(fields_subset=list(names))])
            else:
                d = rng.random()
                if d < 0.4:
                    ops.append(["del_term", "k", u"k%03d" % rng.randrange(docgen.nkeys)])
                elif d < 0.6:
                    ops.append(["del_term", "t", rng.choice(vocab)])
                elif d < 0.8:
                    q = Q.gen_query(rng, cfg, depth=1, simple=True)
                    e = rng.random()
                    if e < 0.15:
                        q = ["andnot", ["every"], q]
                    elif e < 0.2:
                        q = ["and", [["every"], q]]
                    ops.append(["del_query", q])
                else:
                    # the document number comes from the writer's own reader, or (as applications
                    # do) from a searcher of the committed index
                    ops.append(["del_uid", rng.randint(1, max(1, docgen.next_uid - 1)), rng.choice(("writer", "index"))])
            if p_bad_add and rng.random() < p_bad_add and "n" in names:
                # a document the writer must reject (inadmissible NUMERIC value) - and forget entirely
                bad = docgen.doc(fields_subset=list(names))
                bad["n"] = u"not-a-number"
                ops.append(["bad_add", bad])
        if fault_at is not None:
            ops.append(["raise_if_not_failed"])
        elif end < p_iofault + p_raise:
            ops.append(["raise"])
        elif end < p_iofault + p_raise + p_cancel:
            ops.append(["cancel"])
        else:
            m = rng.choice(merges)
            arg = {"merge": m}
            if m == "custom":
                arg["mask"] = rng.randrange(1, 256)
            ops.append(["commit", arg])
        if rng.random() < p_restart:
            ops.append(["restart"])
    return ops


class HistStop(Exception):
    """The history ends here (a hook decided that the process stops)."""


class HistActor(object):
    """Executes ops against the real index and the model. Hooks:
    after_commit(actor), after_abort(actor, how) are called at quiescent
    points; they raise Violation."""

    def __init__(self, session, after_commit=None, after_abort=None,
                 on_op=None, writer_factory=None, before_commit=None,
                 before_abort=None, after_writer_open=None):
        self.s = session
        self.ix = None
        self.w = None
        self.mw = None
        self.after_commit = after_commit
        self.after_abort = after_abort
        self.on_op = on_op
        self.writer_factory = writer_factory
        self.before_commit = before_commit
        self.on_commit_error = None
        self.before_abort = before_abort
        self.after_writer_open = after_writer_open
        self.failed_in_body = None
        self.commits = 0
        self.last_commit_kind = None
        self.tx_no = 0
        self.in_commit = False

    pending_commit = None
    last_outcome = None

    def apply_pending_commit(self):
        """The model's commit point: called at the TOC rename (schedule-
        driven runs) or when commit() returned, whichever comes first."""
        pc = self.pending_commit
        if pc is not None:
            self.pending_commit = None
            pc[0].commit(clear=pc[1])

    def ensure_index(self):
        if self.ix is None:
            if not self.s.index_exists():
                self.ix = self.s.create_index()
            else:
                self.ix = self.s.open_index()
        return self.ix

    def open_writer(self, kw=None):
        ix = self.ensure_index()
        if self.writer_factory is not None:
            return self.writer_factory(ix, kw or {})
        return ix.writer(**self.s.cfg.writer_kwargs())

    def run(self, ops):
        for i, op in enumerate(ops):
            if self.on_op:
                self.on_op(self, i, op)
            self.step(op)
        # an open writer at the end of the history is cancelled
        if self.w is not None:
            self.step(["cancel"])

    def _body(self, fn, opname):
        """Run one operation of a with-block body; an exception makes the
        block fail (writer cancelled by __exit__)."""
        try:
            return fn()
        except (SimAbort, SimKilled, HarnessError, Violation):
            raise
        except OSError as e:
            if getattr(e, "injected", False):
                self.failed_in_body = e
                return None
            raise Violation("op_raised", "%s raised %s: %s" % (opname, type(e).__name__, e),
                            sig="op_raised:%s:%s" % (opname, exc_sig(e)))
        except Exception as e:  # noqa
            if self.s.os.fail_plan is None and getattr(self, "_fault_fired", False):
                # a failure that follows an injected I/O error in the same body
                self.failed_in_body = e
                return None
            raise Violation("op_raised", "%s raised %s: %s" % (opname, type(e).__name__, e),
                            sig="op_raised:%s:%s" % (opname, exc_sig(e)))

    def step(self, op):
        s = self.s
        kind = op[0]
        s.k.event("step", kind)
        if kind == "writer":
            if self.w is not None:
                return
            self.tx_no += 1
            self._fault_fired = False
            self.failed_in_body = None
            try:
                self.w = self.open_writer(op[1] if len(op) > 1 else None)
            except (SimAbort, SimKilled, HarnessError):
                raise
            except Exception as e:  # noqa
                raise Violation("writer_open_raised", "%s: %s" % (type(e).__name__, e),
                                sig="writer_open_raised:" + exc_sig(e))
            self.mw = s.model.writer()
            if self.after_writer_open:
                self.after_writer_open(self)
            return
        if kind == "restart":
            if self.w is not None:
                return
            self.ix = None
            s.new_process("restart")
            s.count("restarts")
            return
        if kind == "ix_optimize":
            # the index-level convenience call: opens a writer and commits with optimize=True
            if self.w is not None:
                return
            ix = self.ensure_index()
            self.mw = s.model.writer()
            self.in_commit = True
            if self.before_commit:
                self.before_commit(self, "optimize")
            self.pending_commit = (self.mw, False)
            try:
                ix.optimize()
            except (SimAbort, SimKilled, HarnessError, Violation):
                raise
            except Exception as e:  # noqa
                raise Violation("commit_raised", "ix.optimize() raised %s: %s" % (type(e).__name__, e),
                                sig="commit_raised:" + exc_sig(e))
            finally:
                self.in_commit = False
            self.apply_pending_commit()
            self.mw = None
            self.commits += 1
            self.last_outcome = "commit"
            self.last_commit_kind = "optimize"
            s.count("commits")
            s.count("ix_optimize")
            if self.after_commit:
                self.after_commit(self)
            return
        if kind == "probe":
            if self.after_commit and self.w is None and self.ix is not None:
                self.after_commit(self, probe_only=True)
            return
        if self.w is None:
            return  # ops outside a transaction are ignored (shrunk records)
        w, mw = self.w, self.mw
        if kind in ("add", "update", "group"):
            names = set(w.schema.names())

            def filt(d):
                return dict((k, v) for k, v in d.items()
                            if (k in names) or (not k.startswith("_") and k in w.schema) or (k.startswith("_") and k != "_boost"
                                                and k.split("_", 2)[-1].replace("_boost", "") in names
                                                or k == "_boost"))
            if kind == "group":
                op = [kind, [filt(d) for d in op[1]]]
            else:
                op = [kind, filt(op[1])]
        if self.failed_in_body is not None and kind not in ("raise_if_not_failed",):
            # the with-block body already failed: nothing else of it runs
            if kind in ("commit", "cancel", "raise"):
                kind = "raise_if_not_failed"
            else:
                return
        if kind == "add":
            if self._body(lambda: w.add_document(**op[1]), "add_document") is None and self.failed_in_body:
                return
            mw.add(op[1])
            s.count("adds")
        elif kind == "group":
            def grp():
                w.start_group()
                for d in op[1]:
                    w.add_document(**d)
                w.end_group()
                return True
            if self._body(grp, "group") is None and self.failed_in_body:
                return
            mw.start_group()
            for d in op[1]:
                mw.add(d)
            mw.end_group()
            s.count("groups")
        elif kind == "update":
            if self._body(lambda: (w.update_document(**op[1]), True), "update_document") is None and self.failed_in_body:
                return
            mw.update(op[1])
            s.count("updates")
        elif kind == "del_term":
            n = self._body(lambda: w.delete_by_term(op[1], op[2]), "delete_by_term")
            if self.failed_in_body:
                return
            exp = mw.delete_by_term(op[1], op[2])
            s.count("deletes")
            if exp:
                s.count("deletes_hit")
            if n != exp:
                raise Violation("delete_return_value",
                                "delete_by_term(%r,%r) returned %r, %d live documents match" % (op[1], op[2], n, exp))
        elif kind == "del_query":
            q = Q.build(op[1], w.schema)
            n = self._body(lambda: w.delete_by_query(q), "delete_by_query")
            if self.failed_in_body:
                return
            uids = Q.evaluate(op[1], mw.live(), mw.schema)
            exp = mw.delete_uids(uids)
            s.count("deletes")
            if exp:
                s.count("deletes_hit")
            if n != exp:
                raise Violation("delete_return_value",
                                "delete_by_query(%s) returned %r, %d live documents match" % (Q.show(op[1]), n, exp))
        elif kind == "del_uid":
            via_index = len(op) > 2 and op[2] == "index"

            def deluid():
                r = self.ix.reader() if via_index else w.reader()
                try:
                    dn = find_docnum(r, op[1])
                finally:
                    r.close()
                if dn is not None:
                    w.delete_document(dn)
                return dn
            dn = self._body(deluid, "delete_document")
            if self.failed_in_body:
                return
            if via_index:
                # numbers of the committed generation stay valid for the writer opened on it;
                # documents this writer added are not visible there (nothing deleted then)
                if dn is not None:
                    mw.delete_uids({op[1]})
                    s.count("deletes")
                    s.count("deletes_by_index_docnum")
                return
            exp = mw.delete_uids({op[1]})
            s.count("deletes")
            if exp:
                s.count("deletes_hit")
            if (dn is not None) != bool(exp):
                raise Violation("delete_visibility", "uid %s: writer.reader() shows it %s, model says %s"
                                % (op[1], "live" if dn is not None else "absent", "live" if exp else "absent"))
        elif kind == "bad_add":
            if "n" not in w.schema.names():
                return
            try:
                w.add_document(**op[1])
            except (SimAbort, SimKilled, HarnessError):
                raise
            except Exception:  # noqa  (rejected, as it must be: nothing of it may survive)
                s.count("rejected_adds")
            else:
                raise HarnessError("add_document accepted n=%r" % (op[1].get("n"),))
        elif kind == "add_field":
            spec = s.cfg.specs[op[1]]
            if op[1] in w.schema.names() or op[1] in s.model.ever_removed:
                # re-adding a name whose old data may still sit in unmerged
                # segments is outside every property's statement
                return
            if self._body(lambda: (w.add_field(op[1], spec.make()), True), "add_field") is None and self.failed_in_body:
                return
            mw.add_field(op[1])
            s.count("add_field")
        elif kind == "remove_field":
            if op[1] not in w.schema.names():
                return
            if self._body(lambda: (w.remove_field(op[1]), True), "remove_field") is None and self.failed_in_body:
                return
            mw.remove_field(op[1])
            s.count("remove_field")
        elif kind == "arm_iofault":
            self._arm(op[1])
        elif kind == "commit":
            arg = op[1] if len(op) > 1 else {}
            m = arg.get("merge", "default")
            kw = {}
            if m == "none":
                kw["merge"] = False
            elif m == "optimize":
                kw["optimize"] = True
            elif m == "clear":
                from whoosh.writing import CLEAR
                kw["mergetype"] = CLEAR
            elif m == "custom":
                kw["mergetype"] = custom_policy(arg.get("mask", 1))
            self.in_commit = True
            s.os.fail_plan = None
            if self.before_commit:
                self.before_commit(self, m)
            self.pending_commit = (mw, m == "clear")
            try:
                w.commit(**kw)
            except (SimAbort, SimKilled, HarnessError, Violation):
                raise
            except Exception as e:  # noqa
                if self.on_commit_error is not None and self.on_commit_error(self, e):
                    raise HistStop()
                raise Violation("commit_raised", "commit(%s) raised %s: %s" % (m, type(e).__name__, e),
                                sig="commit_raised:" + exc_sig(e))
            finally:
                self.in_commit = False
            self.apply_pending_commit()
            self.w = self.mw = None
            self.commits += 1
            self.last_outcome = "commit"
            self.last_commit_kind = m
            s.count("commits")
            s.count("commit_" + m)
            if self.after_commit:
                self.after_commit(self)
        elif kind in ("cancel", "raise", "raise_if_not_failed"):
            s.os.fail_plan = None
            if self.before_abort:
                self.before_abort(self, kind)
            try:
                if kind == "cancel":
                    w.cancel()
                    how = "cancel"
                else:
                    e = self.failed_in_body or UserError("user error in with-block")
                    how = "ioerror" if self.failed_in_body is not None else "exception"
                    w.__exit__(type(e), e, None)
            except (SimAbort, SimKilled, HarnessError, Violation):
                raise
            except Exception as e:  # noqa
                raise Violation("cancel_raised", "%s raised %s: %s" % (kind, type(e).__name__, e),
                                sig="cancel_raised:" + exc_sig(e))
            mw.cancel()
            self.last_outcome = how
            self.w = self.mw = None
            self.failed_in_body = None
            s.count("aborts_" + how)
            if self.after_abort:
                self.after_abort(self, how)
        else:
            raise HarnessError("unknown op %r" % (op,))

    def _arm(self, arg):
        import errno as _e
        state = {"skip": arg.get("skip", 0)}
        code = getattr(_e, arg.get("errno", "EIO"))
        actor = self
        task = self.s.k.current

        def plan(kind, name):
            if kind not in ("write", "creat") or actor.s.k.current is not task \
                    or "WRITELOCK" in name:
                return None
            if state["skip"] > 0:
                state["skip"] -= 1
                return None
            actor.s.os.fail_plan = None
            actor._fault_fired = True
            actor.s.count("iofault_fired")
            e = OSError(code, "injected %s" % arg.get("errno", "EIO"), name)
            e.injected = True
            return e
        self.s.os.fail_plan = plan
