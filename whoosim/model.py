"""Reference model of an index: a list of live documents and what each one
must look like through the read APIs.

What the model shares with Whoosh, and why that is sound for the claimed
properties: ``field.index(value)`` / ``format.word_values`` (the *analysis* of
a value into (term, frequency, weight, value-bytes) - the properties define
the expected postings as "what analysis of the document produced", and
analysis itself is C17 = not applicable / trusted), ``to_column_value`` /
``from_column_value`` / ``column_type.default_value`` (pure value
conversions), ``length_to_byte``/``byte_to_length`` (the documented 1-byte
approximation) and float32 rounding.  The model never touches storage,
codecs, segments, readers, writers, matchers, collectors or scorers.
"""

import struct

_f32 = struct.Struct("<f")


def f32(x):
    return _f32.unpack(_f32.pack(x))[0]


class DDoc(object):
    """Derived expectations for one added document."""
    __slots__ = ("uid", "key", "fields", "stored", "postings", "lengths",
                 "vectors", "columns", "group")

    def __init__(self, uid, key, fields):
        self.uid = uid
        self.key = key
        self.fields = fields
        self.stored = {}
        self.postings = {}   # field -> {tbytes: (freq, weight32, vbytes)}
        self.lengths = {}    # field -> exact length (scorable fields)
        self.vectors = {}    # field -> [(tbytes, weight32, vbytes)] sorted
        self.columns = {}    # field -> value as supplied
        self.group = None


def derive(schema, fields):
    """Mirror of the *documented* effect of add_document on one document
    (writing.rst / IndexWriter.add_document docstring): for each supplied
    field, index terms with weight x boost, store value (or the _stored_
    override), record the column value, record the vector."""
    from whoosh.util.text import utf8encode
    d = DDoc(fields.get("u"), fields.get("k"), fields)
    docboost = float(fields.get("_boost", 1.0))
    for name in sorted(n for n in fields if not n.startswith("_")):
        value = fields[name]
        if value is None:
            continue
        field = schema[name]
        length = 0
        if field.indexed:
            bkw = "_%s_boost" % name
            fboost = float(fields[bkw]) if bkw in fields else docboost
            posts = {}
            tok = None
            if name in ("tx", "txb"):
                # independent of formats.word_values: count the occurrences and sum their boosts
                # straight from the analyzer's token stream (times the format's field boost)
                tok = {}
                for t in field.analyzer(value, positions=True, boosts=True, mode="index"):
                    c = tok.setdefault(field.to_bytes(t.text), [0, 0.0])
                    c[0] += 1
                    c[1] += t.boost
            for tbytes, freq, weight, vbytes in field.index(value):
                if tok is not None:
                    freq, weight = tok[tbytes][0], tok[tbytes][1] * field.format.field_boost
                posts[tbytes] = (freq, f32(weight * fboost), vbytes or b"")
                if field.scorable:
                    length += freq
            if tok is not None and set(tok) != set(posts):
                raise AssertionError("token stream and field.index disagree on the terms of %r" % (name,))
            d.postings[name] = posts
        vformat = field.vector
        if vformat:
            items = sorted((field.to_bytes(text) if not isinstance(text, bytes) else text, f32(w), vb or b"")
                           for text, _, w, vb
                           in vformat.word_values(value, field.analyzer, mode="index"))
            if items:
                d.vectors[name] = items
        custom = fields.get("_stored_%s" % name, value)
        if field.stored:
            d.stored[name] = custom
        if field.scorable and field.indexed:
            d.lengths[name] = length
        if field.column_type and custom is not None:
            d.columns[name] = custom
    return d


def approx_len(n):
    from whoosh.util.numeric import length_to_byte, byte_to_length
    return byte_to_length(length_to_byte(n))


class ModelIndex(object):
    """Committed state = ordered list of live DDocs + schema field names;
    generations are frozen copies. A ModelWriter buffers one transaction."""

    def __init__(self, cfg):
        self.cfg = cfg
        self.field_names = list(cfg.fields)
        self.schema = cfg.make_schema(self.field_names)
        self.docs = []
        self.generation = 0
        self.history = {0: ([], list(self.field_names))}
        self.ever_removed = set()
        self.next_group = 0

    def snapshot(self):
        return (list(self.docs), list(self.field_names))

    def writer(self):
        return ModelWriter(self)


class ModelWriter(object):
    def __init__(self, mi):
        self.mi = mi
        self.adds = []
        self.deleted = set()  # uids
        self.field_names = list(mi.field_names)
        self.schema = mi.cfg.make_schema(self.field_names)
        self.removed_fields = []
        self._group = None
        self._groupno = 0

    # committed live docs as this writer sees them (its own deletions applied)
    def live(self):
        return [d for d in self.mi.docs if d.uid not in self.deleted]

    def add(self, fields):
        d = derive(self.schema, fields)
        if self._group is not None:
            d.group = self._group
        self.adds.append(d)
        return d

    def start_group(self):
        self.mi.next_group += 1
        self._group = self.mi.next_group

    def end_group(self):
        self._group = None

    def matching_term(self, fieldname, text):
        field = self.schema[fieldname]
        tb = field.to_bytes(text)
        return [d for d in self.live() if tb in d.postings.get(fieldname, {})]

    def delete_by_term(self, fieldname, text):
        ms = self.matching_term(fieldname, text)
        for d in ms:
            self.deleted.add(d.uid)
        return len(ms)

    def delete_uids(self, uids):
        n = 0
        for d in self.live():
            if d.uid in uids:
                self.deleted.add(d.uid)
                n += 1
        return n

    def update(self, fields):
        uniq = [n for n in self.field_names
                if n in fields and self.schema[n].unique]
        if uniq:
            for d in self.live():
                for n in uniq:
                    tb = self.schema[n].to_bytes(fields[n])
                    if tb in d.postings.get(n, {}):
                        self.deleted.add(d.uid)
                        break
        return self.add(fields)

    def add_field(self, name):
        self.field_names.append(name)
        self.schema.add(name, self.mi.cfg.specs[name].make())

    def remove_field(self, name):
        self.field_names.remove(name)
        self.schema.remove(name)
        self.removed_fields.append(name)
        self.mi.ever_removed.add(name)

    def preview(self, clear=False):
        """(docs, field_names, schema) this transaction would commit."""
        base = [] if clear else self.live()
        if self.removed_fields:
            base = [strip_fields(d, self.removed_fields) for d in base]
        return (base + self.adds, list(self.field_names), self.schema)

    def commit(self, clear=False):
        mi = self.mi
        if clear:
            base = []
        else:
            base = self.live()
        if self.removed_fields:
            base = [strip_fields(d, self.removed_fields) for d in base]
        mi.docs = base + self.adds
        mi.field_names = self.field_names
        mi.schema = self.schema
        mi.generation += 1
        mi.history[mi.generation] = mi.snapshot()

    def cancel(self):
        pass


def strip_fields(d, names):
    n = DDoc(d.uid, d.key, d.fields)
    n.group = d.group
    n.stored = dict((k, v) for k, v in d.stored.items() if k not in names)
    n.postings = dict((k, v) for k, v in d.postings.items() if k not in names)
    n.lengths = dict((k, v) for k, v in d.lengths.items() if k not in names)
    n.vectors = dict((k, v) for k, v in d.vectors.items() if k not in names)
    n.columns = dict((k, v) for k, v in d.columns.items() if k not in names)
    return n


# -- canonical dump of a model state -------------------------------------------

def model_dump(docs, schema, field_names):
    """Same shape as dump.real_dump (uid-keyed, document-number free)."""
    from whoosim.workload import expand_names
    field_names = expand_names(field_names)
    out = {"docs": {}, "terms": {}, "doc_count": len(docs)}
    colfields = [n for n in field_names if schema[n].column_type]
    for d in docs:
        cols = {}
        for n in colfields:
            if n in d.columns:
                cols[n] = ("v", d.columns[n])
            else:
                cols[n] = ("default", None)
        out["docs"][d.uid] = {
            "stored": dict(d.stored),
            "lengths": dict((f, approx_len(l)) for f, l in d.lengths.items()
                            if f in field_names and l),
            "vectors": dict((f, list(v)) for f, v in d.vectors.items()
                            if f in field_names),
            "columns": cols,
        }
        for f, posts in d.postings.items():
            if f not in field_names:
                continue
            for tb, (freq, w, vb) in posts.items():
                out["terms"].setdefault((f, tb), {})[d.uid] = (freq, w, vb)
    return out


def diff_dumps(exp, got, path=""):
    """First difference between two dumps as a short string, or None."""
    if isinstance(exp, dict) and isinstance(got, dict):
        ek, gk = set(exp), set(got)
        if ek != gk:
            missing = sorted(map(repr, ek - gk))[:4]
            extra = sorted(map(repr, gk - ek))[:4]
            return "%s: keys differ: missing=%s extra=%s" % (path or "/", missing, extra)
        for k in sorted(exp, key=repr):
            r = diff_dumps(exp[k], got[k], "%s/%s" % (path, _short(k)))
            if r:
                return r
        return None
    if isinstance(exp, (list, tuple)) and isinstance(got, (list, tuple)) \
            and not (exp and exp[0] == "v") and not (exp and exp[0] == "default"):
        if len(exp) != len(got):
            return "%s: length %d != %d (%s vs %s)" % (path, len(exp), len(got), _short(exp), _short(got))
        for i, (a, b) in enumerate(zip(exp, got)):
            r = diff_dumps(a, b, "%s[%d]" % (path, i))
            if r:
                return r
        return None
    if isinstance(exp, tuple) and exp and exp[0] in ("v", "default"):
        if exp[0] == "default":
            if not (isinstance(got, tuple) and got[0] == "default"):
                return "%s: expected column default, got %s" % (path, _short(got))
            return None
        if not (isinstance(got, tuple) and got[0] == "v" and _eq(exp[1], got[1])):
            return "%s: expected %s, got %s" % (path, _short(exp), _short(got))
        return None
    if not _eq(exp, got):
        return "%s: expected %s, got %s" % (path, _short(exp), _short(got))
    return None


def _eq(a, b):
    if isinstance(a, float) and isinstance(b, float):
        if a != a and b != b:
            return True
        return a == b  # -0.0 == 0.0: numerically unchanged
    if type(a) != type(b):
        if isinstance(a, (int, float)) and isinstance(b, (int, float)) \
                and not isinstance(a, bool) and not isinstance(b, bool):
            return a == b
        return False
    return a == b


def _short(x):
    s = repr(x)
    return s if len(s) <= 120 else s[:117] + "..."
