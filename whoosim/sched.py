"""E-sched: several actors (simulated threads / processes) on one index under
the seeded scheduler; histories of invoke/return events stamped with the
kernel's global event sequence number."""

import re

from whoosim import dump as D
from whoosim import model as M
from whoosim.hist import HistActor
from whoosim.kernel import HarnessError, SimAbort, SimKilled
from whoosim.session import (INDEX_DIR, Session, Violation, exc_sig,
                             normalise_defaults)

TOC_RE = re.compile(r"(?:^|[>/])_MAIN_([0-9]+)\.toc$")


class SchedSession(Session):
    """A Session with the bookkeeping shared by the schedule-driven checks:
    rename / return sequence numbers per generation, a shared history."""

    def __init__(self, *a, **kw):
        self.storage_kind = kw.pop("storage_kind", "file")
        Session.__init__(self, *a, **kw)
        self.ren_ev = {0: 0}       # generation -> seq of the TOC rename event
        self.ren_applied = {0: 0}  # generation -> seq when the rename had taken effect
        self.ret = {0: 0}          # generation -> seq when commit() returned
        self.history = []
        self.all_holds = []
        self.commit_log = []
        self.actors = []
        self.ram = None
        self.last_mut = {}     # task id -> seq of its last mutating storage event
        self.first_mut = {}    # task id -> seq of its first mutating storage event since it was last cleared
        self.lock_events = []  # (seq, time, task name, kind)
        self.lock_holds = []   # [task name, acq seq, acq time, rel seq, rel time]
        self.k.event_hooks.append(self._on_event)
        self.k.post_hooks.append(self._on_post)

    MUT = ("creat", "write", "rename", "unlink", "truncate", "mkdir", "rmdir", "makedirs",
           "ram.create_file", "ram.rename_file", "ram.delete_file")

    def _on_event(self, k, task, kind, detail):
        if kind in self.MUT and "WRITELOCK" not in detail:
            self.last_mut[task.id] = k.seq
            self.first_mut.setdefault(task.id, k.seq)
        elif kind in ("flock", "funlock") and "WRITELOCK" in detail:
            self.lock_events.append((k.seq, k.time(), task.name, kind))
        # (a BufferedWriter keeps its buffer in a RamStorage index of its own, whose TOC renames are not commits of the index under test)
        if kind == "rename" or (kind == "ram.rename_file" and self.storage_kind == "ram"):
            dst = detail.split(">")[-1] if ">" in detail else detail.split(",")[-1]
            m = TOC_RE.search(dst)
            if m:
                g = int(m.group(1))
                self.ren_ev.setdefault(g, k.seq)
                actor = getattr(task, "actor", None)
                if actor is not None and hasattr(actor, "apply_pending_commit"):
                    actor.apply_pending_commit()

    def _on_post(self, k, task, kind, detail):
        if kind == "locked" and "WRITELOCK" in detail:
            self.lock_holds.append([task.name, k.seq, k.time(), None, None])
        elif kind == "unlocked" and "WRITELOCK" in detail:
            for h in reversed(self.lock_holds):
                if h[3] is None:
                    h[3], h[4] = k.seq, k.time()
                    break
        if kind == "rename":
            m = TOC_RE.search(detail.split(">")[-1])
            if m:
                self.ren_applied.setdefault(int(m.group(1)), k.seq)

    # storage per actor
    def actor_storage(self):
        if self.storage_kind == "ram":
            if self.ram is None:
                from whoosh.filedb.filestore import RamStorage
                self.ram = RamStorage()
            return self.ram
        return self.storage()

    def setup_index(self):
        st = self.actor_storage()
        if self.storage_kind != "ram":
            st.create()
        st.create_index(self.cfg.make_schema())

    def run_actors(self, actors):
        """Spawn every actor as a task (own process unless actor.proc is
        given), wait for all; returns deadlock info or None."""
        self.actors = actors
        shared = None
        # Index objects are constructed up front: FileIndex.__init__ reads the
        # TOC without the retry loop that reader() has, and racing *that*
        # against a commit is outside the properties (they speak of readers,
        # searchers and writers of an index, not of constructing the handle)
        shared_ix = None
        for a in actors:
            if getattr(a, "ix", None) is None:
                if getattr(self, "share_ix", False) and not (a.own_process and self.storage_kind != "ram"):
                    # threads of one process may share one Index object (docs: "stateless, share-able between threads")
                    if shared_ix is None:
                        shared_ix = self.actor_storage().open_index()
                    a.ix = shared_ix
                else:
                    a.ix = self.actor_storage().open_index()
        for a in actors:
            if a.own_process and self.storage_kind != "ram":
                proc = self.k.new_proc(a.name)
            else:
                if shared is None:
                    shared = self.k.new_proc("threads")
                proc = shared
            t = self.k.spawn(a.body, a.name, proc=proc)
            t.actor = a
            a.task = t
        try:
            self.k.join_all()
        except SimAbort:
            if self.k.deadlock is not None:
                return self.k.deadlock
            raise
        return None


def _collect():
    """The cyclic garbage collector is switched off inside a run (its timing is not ours to
    decide); where the workload drops objects it is run explicitly, so that finalizers of
    unreachable cycles (a half-built writer and its lock object) run at a point the seed decides."""
    import gc
    gc.collect()


class SchedWriter(HistActor):
    """A writer actor: list of transactions."""

    def __init__(self, session, name, txs, own_process=True):
        HistActor.__init__(self, session)
        self.name = name
        self.txs = txs
        self.own_process = own_process
        self.violation = None
        self.attempts = []   # lock attempts: dicts
        self.held = []       # [acquired_seq, released_seq, generation or None]
        # an application may keep the exceptions it caught (a log, a list of failures): with their
        # tracebacks they keep the failed writer and its lock object alive. "none" | "next" | "end"
        self.keep_errors = "none"
        self.kept = []

    def ensure_index(self):
        if self.ix is None:
            self.ix = self.s.actor_storage().open_index()
        return self.ix

    def body(self):
        try:
            for tx in self.txs:
                if self.keep_errors == "next" and self.kept and self.w is None:
                    pass
                self.run_tx(tx)
            if self.kept:
                self.s.k.event("step", "drop_kept_errors")
                self.kept = []
                _collect()
        except Violation as v:
            self.violation = v
        except (SimAbort, SimKilled):
            raise

    def run_tx(self, tx):
        from whoosh.index import LockError
        s = self.s
        k = s.k
        ix = self.ensure_index()
        kw = dict(s.cfg.writer_kwargs())
        timeout = tx.get("timeout", 5.0)
        kw["timeout"] = timeout
        kw["delay"] = tx.get("delay", 0.1)
        kw.update(getattr(self, "extra_writer_kwargs", None) or {})
        k.event("step", "tx.begin")
        a = k.seq
        t0 = k.time()
        att = {"actor": self.name, "a": a, "t0": t0, "timeout": timeout, "delay": kw["delay"]}
        self.attempts.append(att)
        if self.keep_errors == "next" and self.kept:
            k.event("step", "drop_kept_errors")
            self.kept = []
            _collect()
        try:
            w = ix.writer(**kw)
        except LockError as e:
            att["outcome"] = "LockError"
            att["b"] = k.seq
            att["t1"] = k.time()
            s.count("lockerror")
            if self.keep_errors != "none":
                self.kept.append(e)
                s.count("lockerror_kept")
            return
        except (SimAbort, SimKilled, HarnessError):
            raise
        except Exception as e:  # noqa
            raise Violation("writer_open_raised", "%s: %s" % (type(e).__name__, e),
                            sig="writer_open_raised:" + exc_sig(e))
        att["outcome"] = "acquired"
        att["b"] = k.seq
        att["t1"] = k.time()
        hold = [k.seq, None, None, self.name, k.time(), None, None, a]
        self.held.append(hold)
        s.all_holds.append(hold)
        self.w = w
        self.mw = s.model.writer()
        self.failed_in_body = None
        self._fault_fired = False
        gen_target = s.model.generation + 1
        self.last_outcome = None
        try:
            for op in tx["body"]:
                if op[0] == "nested_attempt":
                    self.nested_attempt()
                else:
                    self.step(op)
            self.step(tx["end"])
        finally:
            hold[1] = k.seq
            lm = s.last_mut.get(k.current.id, 0)
            hold[5] = lm if lm > hold[0] else hold[0]   # end of the critical section by effects
            hold[6] = k.time()
        att["result"] = self.last_outcome
        if self.last_outcome == "commit":
            hold[2] = gen_target
            s.ret.setdefault(gen_target, k.seq)
            s.commit_log.append((gen_target, self.name))


def _nested_attempt(self):
    """While this actor's writer is open, a second ix.writer(timeout=0) must
    fail with LockError."""
    from whoosh.index import LockError
    k = self.s.k
    k.event("step", "nested_attempt")
    att = {"actor": self.name, "a": k.seq, "t0": k.time(), "timeout": 0.0, "delay": 0.1, "nested": True}
    self.attempts.append(att)
    try:
        w2 = self.ix.writer(timeout=0.0)
    except LockError:
        att["outcome"] = "LockError"
        att["b"] = k.seq
        att["t1"] = k.time()
        self.s.count("nested_lockerror")
        return
    except (SimAbort, SimKilled, HarnessError):
        raise
    except Exception as e:  # noqa
        # anything but LockError means the second attempt got past the lock (far enough to do
        # I/O of its own, e.g. into a fault that was armed for this task's open writer)
        att["outcome"] = "nested_proceeded"
        att["b"] = k.seq
        att["t1"] = k.time()
        att["error"] = "%s: %s" % (type(e).__name__, e)
        return
    att["outcome"] = "nested_proceeded"
    att["b"] = k.seq
    att["t1"] = k.time()
    try:
        w2.cancel()
    except Exception:  # noqa
        pass


SchedWriter.nested_attempt = _nested_attempt


class SchedReader(object):
    """A reader actor: open / probe / utd / refresh / close."""

    def __init__(self, session, name, ops, own_process=True, parts=None):
        self.s = session
        self.name = name
        self.ops = ops
        self.own_process = own_process
        self.violation = None
        self.searcher = None
        self.sid = 0
        self.ix = None
        self.parts = parts or ("stored", "lengths", "vectors", "columns", "terms")

    def body(self):
        try:
            for op in self.ops:
                self.step(op)
            if self.searcher is not None:
                self.step(["close"])
        except Violation as v:
            self.violation = v

    def _obs(self, kind, a, **kw):
        o = {"actor": self.name, "kind": kind, "a": a, "b": self.s.k.seq, "sid": self.sid}
        o.update(kw)
        self.s.history.append(o)
        return o

    def step(self, op):
        s = self.s
        k = s.k
        kind = op[0]
        k.event("step", "r." + kind)
        a = k.seq
        if self.ix is None:
            self.ix = s.actor_storage().open_index()
        if kind == "open":
            if self.searcher is not None:
                return
            try:
                self.searcher = self.ix.searcher()
            except (SimAbort, SimKilled, HarnessError):
                raise
            except Exception as e:  # noqa
                raise Violation("open_never_fails", "%s: ix.searcher() raised %s: %s" % (self.name, type(e).__name__, e),
                                sig="open_never_fails:" + exc_sig(e))
            self.sid += 1
            s.count("reader_opens")
            self._obs("open", a, gen=self.searcher.reader().generation())
        elif kind == "probe":
            if self.searcher is None:
                return
            r = self.searcher.reader()
            try:
                got = D.real_dump(r, r.schema, parts=self.parts)
            except D.DumpError as e:
                if isinstance(e.exc, (SimAbort, SimKilled, HarnessError)):
                    raise e.exc
                loose = (not s.cfg.compound) and s.model.generation > (r.generation() or 0)
                v = Violation("held_reader_probe_equals_snapshot",
                              "%s: reading through a held searcher (generation %s) raised: %s" % (self.name, r.generation(), e),
                              sig=("held_reader:loose_segment_files_vanish" if loose else
                                   "held_reader_probe_raised:%s:%s" % (e.where.split("(")[0], exc_sig(e.exc))))
                s.soft(v)
                self._obs("probe_failed", a, gen=r.generation())
                return
            s.count("probes")
            self._obs("probe", a, dump=got, gen=r.generation())
            self.search_view_check(got)
        elif kind == "utd":
            if self.searcher is None:
                return
            try:
                v = self.searcher.up_to_date()
            except (SimAbort, SimKilled, HarnessError):
                raise
            except Exception as e:  # noqa
                raise Violation("up_to_date_exact", "%s: up_to_date() raised %s: %s" % (self.name, type(e).__name__, e),
                                sig="up_to_date_raised:" + exc_sig(e))
            s.count("utd_calls")
            self._obs("utd", a, value=v, gen=self.searcher.reader().generation())
        elif kind == "refresh":
            if self.searcher is None:
                return
            old = self.searcher
            try:
                new = old.refresh()
            except (SimAbort, SimKilled, HarnessError):
                raise
            except Exception as e:  # noqa
                raise Violation("open_never_fails", "%s: refresh() raised %s: %s" % (self.name, type(e).__name__, e),
                                sig="refresh_raised:" + exc_sig(e))
            if new is not old:
                self.sid += 1
                s.count("refresh_new_reader")
            else:
                s.count("refresh_same_reader")
            self.searcher = new
            self._obs("refresh", a, gen=new.reader().generation(), same=(new is old))
        elif kind == "close":
            if self.searcher is not None:
                try:
                    self.searcher.close()
                except (SimAbort, SimKilled, HarnessError):
                    raise
                except Exception:  # noqa
                    pass
                self.searcher = None
        elif kind == "sleep":
            k.sleep(op[1])
        elif kind == "await":
            # a client that waits for the next commit to return (or for the writers to finish)
            seen = len(s.ret)
            writers = [x for x in s.actors if isinstance(x, SchedWriter)]
            k.block_until(lambda: len(s.ret) > seen or all(w.task.state == "done" for w in writers),
                          timeout=30.0, desc="await commit")
            s.count("reader_awaits")
        else:
            raise HarnessError("unknown reader op %r" % (op,))


def _search_view(searcher, word):
    """What a user of the *searcher* (not only its reader) sees: an ordering by a
    field without a column (sorting through the searcher-level field cache) and a
    scored search (searcher-level statistics)."""
    from whoosh import query
    srt = [(h["k"], h["u"]) for h in searcher.search(query.Every(), sortedby="k", limit=None)]
    sc = [(h["u"], repr(h.score)) for h in searcher.search(query.Term("t", word), limit=None)]
    # document numbers are part of the view: they are what delete_document() and stored_fields() take
    nums = [(dn, st.get("u")) for dn, st in searcher.reader().iter_docs()]
    # the schema is part of a generation: which fields exist, and which documents have one
    names = sorted(searcher.schema.names())
    per_field = []
    for n in names:
        if "*" in n or not searcher.schema[n].indexed:
            continue
        per_field.append((n, sorted(h["u"] for h in searcher.search(query.Every(n), limit=None))))
    return srt, sc, nums, names, per_field


def _search_view_check(self, got):
    """A held or refreshed searcher answers searches from the same snapshot as
    its reader, and exactly like a searcher freshly opened on that generation."""
    s = self.s
    srch = self.searcher
    r = srch.reader()
    word = s.cfg.vocab[0]
    where = "%s: searcher of generation %s" % (self.name, r.generation())

    def run(sr, what):
        try:
            return _search_view(sr, word)
        except (SimAbort, SimKilled, HarnessError):
            raise
        except Exception as e:  # noqa
            loose = (not s.cfg.compound) and s.model.generation > (r.generation() or 0)
            v = Violation("held_reader_probe_equals_snapshot", "%s: a search through %s raised %s: %s" % (where, what, type(e).__name__, e),
                          sig=("held_reader:loose_segment_files_vanish" if loose else "searcher_search_raised:" + exc_sig(e)))
            if loose:
                s.soft(v)
                return None
            raise v
    mine = run(srch, "the held searcher")
    if mine is None:
        return
    srt, sc, nums, names, per_field = mine
    s.count("search_view_checks")
    uids = sorted(u for _, u in srt)
    live = sorted(got["docs"])
    if uids != live:
        raise Violation("held_reader_probe_equals_snapshot", "%s: Every() sorted by k returned uids %s, its own reader lists %s" % (where, uids[:12], live[:12]),
                        sig="searcher_view:sorted_set")
    ks = [kv for kv, _ in srt]
    if ks != sorted(ks):
        raise Violation("held_reader_probe_equals_snapshot", "%s: Every() sorted by k is out of order: %s" % (where, ks[:16]),
                        sig="searcher_view:sorted_order")
    live_set = set(live)
    for u, _ in sc:
        if u not in live_set:
            raise Violation("held_reader_probe_equals_snapshot", "%s: scored search returned uid %s, not a live document of its reader" % (where, u),
                            sig="searcher_view:scored_set")
    # differential: a fresh open that lands on the same generation must agree exactly
    try:
        fresh = self.ix.searcher()
    except (SimAbort, SimKilled, HarnessError):
        raise
    except Exception:  # noqa  (open failures are judged by the "open" op)
        return
    try:
        if fresh.reader().generation() != r.generation():
            return
        theirs = run(fresh, "a fresh searcher")
    finally:
        fresh.close()
    if theirs is None:
        return
    s.count("search_view_vs_fresh")
    if theirs[3] != names:
        raise Violation("refresh_equals_fresh_open", "%s: its schema has the fields %s, a fresh searcher of the same generation %s" % (where, names, theirs[3]),
                        sig="refresh_equals_fresh_open:schema")
    if theirs[4] != per_field:
        raise Violation("refresh_equals_fresh_open", "%s: Every(<field>) per field gives %s, a fresh searcher of the same generation %s" % (where, per_field[:4], theirs[4][:4]),
                        sig="refresh_equals_fresh_open:every_field")
    if theirs[0] != srt:
        raise Violation("refresh_equals_fresh_open", "%s: Every() sorted by k gives %s, a fresh searcher of the same generation gives %s" % (where, srt[:10], theirs[0][:10]),
                        sig="refresh_equals_fresh_open:sorted_search")
    if theirs[2] != nums:
        raise Violation("refresh_equals_fresh_open", "%s: numbers its documents %s, a fresh searcher of the same generation %s" % (where, nums[:10], theirs[2][:10]),
                        sig="refresh_equals_fresh_open:document_numbers")
    if theirs[1] != sc:
        raise Violation("refresh_equals_fresh_open", "%s: Term(t,%s) scores %s, a fresh searcher of the same generation scores %s" % (where, word, sc[:6], theirs[1][:6]),
                        sig="refresh_equals_fresh_open:scored_search")


def _search_view_check_outer(self, got):
    s = self.s
    gen = self.searcher.reader().generation() or 0
    try:
        _search_view_check(self, got)
    except Violation as v:
        # same criterion as for reader probes: loose segment files and a later commit already
        # renamed its TOC -> lazily opened per-document files may be gone (K-C03-loose-segments)
        if (not s.cfg.compound) and s.model.generation > gen:
            v.sig = "held_reader:loose_segment_files_vanish"
            s.soft(v)
            return
        raise


SchedReader.search_view_check = _search_view_check_outer


def dump_equals_model(got, docs, schema, field_names, parts):
    """None if equal else message."""
    exp = M.model_dump(docs, schema, field_names)
    got = {"docs": dict((u, dict(d, columns=dict(d["columns"]))) for u, d in got["docs"].items()),
           "terms": got["terms"], "doc_count": got["doc_count"],
           "duplicate_uids": got.get("duplicate_uids")}
    normalise_defaults(exp, got, schema)
    if got.get("duplicate_uids"):
        return "documents returned twice: uids %s" % (got["duplicate_uids"][:6],)
    if got["doc_count"] != exp["doc_count"]:
        return "doc_count()=%s, model %s" % (got["doc_count"], exp["doc_count"])
    ek, gk = set(exp["docs"]), set(got["docs"])
    if ek != gk:
        return "live documents differ: missing uids %s, unexpected uids %s" % (
            sorted(ek - gk, key=repr)[:6], sorted(gk - ek, key=repr)[:6])
    for part in ("stored", "lengths", "vectors", "columns"):
        if part not in parts:
            continue
        for uid in exp["docs"]:
            r = M.diff_dumps(exp["docs"][uid][part], got["docs"][uid][part], "uid=%s/%s" % (uid, part))
            if r:
                return r
    if "terms" in parts:
        r = M.diff_dumps(exp["terms"], got["terms"], "terms")
        if r:
            return r
    return None
