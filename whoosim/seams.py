"""Installs the simulated OS / clock / threads / processes / randomness into
the real Whoosh modules by replacing module globals and class attributes
(no source change in /repo). See DESIGN.md section 3.1."""

import builtins
import importlib
import multiprocessing
import os as _real_os
import pkgutil
import random as _real_random
import sys
import tempfile as _real_tempfile
import threading as _real_threading
import time as _real_time
import mmap as _real_mmap

from whoosim import simthreads
from whoosim.kernel import HarnessError

REPO_SRC = _real_os.environ.get("WHOOSIM_REPO", "/repo") + "/src"

# the real callables, captured before any tripwire wraps them
_R_TIME, _R_SLEEP, _R_PERF = _real_time.time, _real_time.sleep, _real_time.perf_counter
_R_LOCK, _R_RLOCK, _R_TIMER = _real_threading.Lock, _real_threading.RLock, _real_threading.Timer
_R_QUEUE, _R_CPU = multiprocessing.Queue, multiprocessing.cpu_count

_loaded = [False]
_originals = []  # (obj, attr, original value or _MISSING)
_MISSING = object()
_installed = [None]


def load_whoosh():
    """Import every whoosh module from /repo/src (and only from there)."""
    if _loaded[0]:
        return
    if sys.path[0] != REPO_SRC:
        sys.path.insert(0, REPO_SRC)
    import whoosh
    if not _real_os.path.realpath(whoosh.__file__).startswith(REPO_SRC + "/"):
        raise HarnessError("whoosh imported from %s, not %s" % (whoosh.__file__, REPO_SRC))
    skip = ("whoosh.filedb.gae", "whoosh.support.bench", "whoosh.util.testing",
            "whoosh.lang.", "whoosh.support.pyparsing")
    for m in pkgutil.walk_packages(whoosh.__path__, "whoosh."):
        if any(m.name.startswith(s) for s in skip):
            continue
        try:
            importlib.import_module(m.name)
        except ImportError:
            pass
    _loaded[0] = True


def _set(obj, attr, value):
    old = obj.__dict__.get(attr, _MISSING) if isinstance(obj, type) else \
        getattr(obj, "__dict__", {}).get(attr, _MISSING)
    _originals.append((obj, attr, old))
    setattr(obj, attr, value)


class _RandomFacade(object):
    def __init__(self, rng):
        self._rng = rng

    def __getattr__(self, name):
        if name in ("choice", "randint", "random", "sample", "shuffle",
                    "randrange", "uniform", "getrandbits"):
            return getattr(self._rng, name)
        raise HarnessError("random.%s is not simulated" % name)


def install(kernel, simos):
    """Patch every loaded whoosh.* module. Idempotent per (kernel, simos);
    call uninstall() before installing another pair."""
    load_whoosh()
    if _installed[0] is not None:
        raise HarnessError("seams already installed for another simulation")
    simthreads.set_kernel(kernel)
    thr = simthreads.SimThreadingModule(kernel)
    thr.Thread = _real_threading.Thread  # AsyncWriter derives from the real class
    rnd = _RandomFacade(kernel.stream("names"))

    def sim_lock_factory():
        return simthreads.SimLock(kernel)

    def sim_rlock_factory():
        return simthreads.SimRLock(kernel)

    module_map = {
        id(_real_os): simos.os,
        id(_real_os.path): simos.os.path,
        id(_real_time): simos.time,
        id(_real_threading): thr,
        id(_real_random): rnd,
        id(_real_mmap): simos.mmap,
        id(_real_tempfile): simos.tempfile,
    }
    func_map = {
        id(_R_TIME): simos.time.time,
        id(_R_SLEEP): simos.time.sleep,
        id(_R_PERF): simos.time.perf_counter,
        id(_R_LOCK): sim_lock_factory,
        id(_R_RLOCK): sim_rlock_factory,
        id(_R_TIMER): simthreads.SimTimer,
        id(_R_QUEUE): simthreads.SimQueue,
        id(_R_CPU): (lambda: 2),
    }
    found = []
    for name, mod in sorted(sys.modules.items()):
        if mod is None or not (name == "whoosh" or name.startswith("whoosh.")):
            continue
        for attr, val in list(vars(mod).items()):
            rep = module_map.get(id(val))
            if rep is None:
                try:
                    rep = func_map.get(id(val))
                except Exception:
                    rep = None
            if rep is not None:
                _set(mod, attr, rep)
                found.append("%s.%s" % (name, attr))
            elif isinstance(val, type) and val.__module__ == name:
                if issubclass(val, _real_threading.Thread) and val is not _real_threading.Thread:
                    _set(val, "start", simthreads.sim_thread_start)
                    _set(val, "join", simthreads.sim_thread_join)
                    _set(val, "is_alive", simthreads.sim_thread_is_alive)
                    found.append("%s.%s{start,join,is_alive}" % (name, attr))
                elif issubclass(val, multiprocessing.Process) and val is not multiprocessing.Process:
                    _set(val, "start", simthreads.sim_process_start)
                    _set(val, "join", simthreads.sim_process_join)
                    _set(val, "is_alive", simthreads.sim_process_is_alive)
                    found.append("%s.%s{start,join,is_alive}" % (name, attr))
        # every whoosh module gets a simulated builtin open
        _set(mod, "open", simos.open)
    # RamStorage does no OS calls: give its operations event boundaries so
    # that threads sharing a RAM index can be interleaved and observed
    from whoosh.filedb.filestore import RamStorage

    def wrap_ram(name):
        orig = RamStorage.__dict__[name]

        def method(self, *a, **k):
            kernel.event("ram." + name, ",".join(str(x) for x in a[:2]))
            r = orig(self, *a, **k)
            if name == "rename_file":
                kernel.post_event("rename", "%s>%s" % (a[0], a[1]))
            return r
        method.__name__ = name
        return method
    for nm in ("create_file", "open_file", "list", "file_exists", "delete_file",
               "rename_file", "file_length"):
        _set(RamStorage, nm, wrap_ram(nm))
    orig_lock = RamStorage.__dict__["lock"]

    def ram_lock(self, name):
        lk = orig_lock(self, name)   # the real method; the lock it makes is a SimLock
        if isinstance(lk, simthreads.SimLock) and not lk.name:
            lk.name = "ram:" + name
        return lk
    _set(RamStorage, "lock", ram_lock)
    # fcntl is imported inside FcntlLock.acquire/release
    _originals.append((sys.modules, "fcntl", sys.modules.get("fcntl", _MISSING)))
    sys.modules["fcntl"] = simos.fcntl
    _installed[0] = (kernel, simos)
    return found


def uninstall():
    while _originals:
        obj, attr, old = _originals.pop()
        if obj is sys.modules:
            if old is _MISSING:
                sys.modules.pop(attr, None)
            else:
                sys.modules[attr] = old
            continue
        if old is _MISSING:
            try:
                delattr(obj, attr)
            except AttributeError:
                pass
        else:
            setattr(obj, attr, old)
    simthreads.set_kernel(None)
    _installed[0] = None


# -- tripwires -----------------------------------------------------------------

_trip_originals = []


def _from_whoosh(depth=2):
    f = sys._getframe(depth)
    fn = f.f_code.co_filename
    return fn.startswith(REPO_SRC + "/whoosh/"), "%s:%d" % (fn, f.f_lineno)


def install_tripwires():
    """Wrap the real nondeterminism sources so that a call coming directly
    from Whoosh code raises: one forgotten seam is what silently breaks
    replay."""
    if _trip_originals:
        return

    def guard(mod, name):
        orig = getattr(mod, name)

        def wrapper(*a, **k):
            bad, where = _from_whoosh()
            if bad:
                raise HarnessError("unsimulated nondeterminism source %s.%s reached at %s"
                                   % (getattr(mod, "__name__", mod), name, where))
            return orig(*a, **k)
        wrapper.__name__ = name
        wrapper.__wrapped__ = orig
        _trip_originals.append((mod, name, orig))
        setattr(mod, name, wrapper)

    guard(builtins, "open")
    for n in ("open", "listdir", "rename", "remove", "replace", "mkdir",
              "makedirs", "rmdir", "stat", "unlink"):
        guard(_real_os, n)
    for n in ("time", "sleep"):
        guard(_real_time, n)
    for n in ("random", "choice", "randint", "shuffle", "sample", "randrange"):
        guard(_real_random, n)
    guard(_real_tempfile, "mkstemp")


def remove_tripwires():
    while _trip_originals:
        mod, name, orig = _trip_originals.pop()
        setattr(mod, name, orig)
