"""whoosim: deterministic simulation with fault injection for Whoosh.

See /verif/DESIGN.md.  Everything here runs the *real* Whoosh code from
/repo/src on a simulated operating system (files, locks, mmap, clock,
threads, processes, queues, randomness) owned by one seeded kernel.
"""
