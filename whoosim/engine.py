"""Batch runner shared by all checks: seeds -> runs on 16 workers, determinism
audit, violation replay + minimisation, known findings, evidence files."""

import concurrent.futures as cf
import faulthandler
import gc
import hashlib
import importlib
import json
import multiprocessing
import os
import sys
import time
import traceback

from whoosim import util

VERIF = os.path.dirname(os.path.dirname(os.path.abspath(__file__)))
OUT = os.path.join(VERIF, "out")
# (runs against a deliberately broken tree - mutants self-test, seeded-change evaluation - write elsewhere)
EVIDENCE = os.environ.get("WHOOSIM_EVIDENCE_DIR") or os.path.join(VERIF, "evidence")
KNOWN = os.path.join(VERIF, "known_findings.json")

RUN_TIMEOUT = 120  # wall seconds per run before the watchdog dumps stacks


def prop_module(pid):
    return importlib.import_module("whoosim.props.%s" % pid.lower())


def load_known():
    if not os.path.exists(KNOWN):
        return []
    with open(KNOWN) as f:
        return json.load(f)["findings"]


def match_known(pid, result, known):
    """A known finding matches when its property, clause and every one of
    its 'match' substrings/keys agree with the violation's signature."""
    sig = result.get("sig") or ""
    for k in known:
        if k.get("property") != pid or k.get("status") != "known":
            continue
        if k["signature"] == sig:
            return k
        pat = k.get("signature_prefix")
        if pat and sig.startswith(pat):
            return k
    return None


def result_ok(stats=None, digest="", nontrivial=True, isig="", notes=None, sample=None):
    return {"verdict": "ok", "stats": stats or {}, "digest": digest,
            "nontrivial": nontrivial, "isig": isig, "notes": notes or [],
            "sample": sample}


def result_violation(clause, detail, sig=None, stats=None, digest="", isig="", sample=None,
                     nontrivial=True):
    return {"verdict": "violation", "clause": clause, "detail": detail,
            "sig": sig or clause, "stats": stats or {}, "digest": digest,
            "nontrivial": nontrivial, "isig": isig, "notes": [], "sample": sample}


def result_harness(msg, stats=None):
    return {"verdict": "harness_error", "detail": msg, "stats": stats or {},
            "digest": "", "nontrivial": False, "isig": "", "notes": [], "sample": None}


def _worker_init():
    import warnings
    warnings.simplefilter("ignore")
    sys.setrecursionlimit(10000)


_watchdog_armed = [False]


def heartbeat():
    """Re-arms the hang watchdog: for runs made of many independent bounded pieces
    (C02 recovers hundreds of crash states per run) the limit applies per piece."""
    if _watchdog_armed[0]:
        faulthandler.dump_traceback_later(RUN_TIMEOUT, exit=True)


def run_one(pid, seed, tier, want_record=False):
    """Generate and execute one run in this process. Never raises."""
    mod = prop_module(pid)
    faulthandler.dump_traceback_later(RUN_TIMEOUT, exit=True)
    _watchdog_armed[0] = True
    t0 = time.time()
    try:
        record = mod.generate(seed, tier)
        res = mod.execute(record)
    except BaseException as e:  # noqa
        res = result_harness("seed %s: %s: %s\n%s" % (seed, type(e).__name__, e, traceback.format_exc()))
        record = None
    finally:
        _watchdog_armed[0] = False
        faulthandler.cancel_dump_traceback_later()
        # whatever the run left unreachable is finalised now, with the simulated OS gone: a
        # finalizer (FcntlLock.__del__) must never run inside the *next* run's simulation
        gc.collect()
    res["seed"] = seed
    res["wall"] = time.time() - t0
    if record is not None and res.get("record_patch"):
        record.update(res.pop("record_patch"))
    if res["verdict"] != "ok" or want_record:
        res["record"] = record
    return res


def run_record(pid, record):
    mod = prop_module(pid)
    faulthandler.dump_traceback_later(RUN_TIMEOUT, exit=True)
    _watchdog_armed[0] = True
    try:
        res = mod.execute(record)
    except BaseException as e:  # noqa
        res = result_harness("%s: %s\n%s" % (type(e).__name__, e, traceback.format_exc()))
    finally:
        _watchdog_armed[0] = False
        faulthandler.cancel_dump_traceback_later()
        gc.collect()
    return res


def _chunk_worker(args):
    pid, seeds, tier, audit_every = args[:4]
    deadline = args[4] if len(args) > 4 else None
    out = []
    for i, seed in enumerate(seeds):
        if deadline is not None and time.time() > deadline:
            break   # the batch's time budget is used up: the remaining seeds of this chunk are not explored
        r = run_one(pid, seed, tier)
        if audit_every and seed % audit_every == 0 and r["verdict"] != "harness_error":
            r2 = run_one(pid, seed, tier)
            r["audited"] = True
            if r2.get("digest") != r.get("digest") or r2["verdict"] != r["verdict"]:
                r = result_harness("nondeterminism: seed %s digests %s vs %s (%s vs %s)"
                                   % (seed, r.get("digest"), r2.get("digest"), r["verdict"], r2["verdict"]))
                r["seed"] = seed
                r["wall"] = 0
        out.append(r)
    return out


def _minimise_worker(args):
    pid, record, sig = args
    return minimise(pid, record, sig)


def ddmin_list(items, test, budget):
    """Classic ddmin on a list; test(list)->bool (True = still fails)."""
    n = 2
    while len(items) >= 2 and budget[0] > 0:
        size = max(1, len(items) // n)
        chunks = [items[i:i + size] for i in range(0, len(items), size)]
        reduced = False
        for i in range(len(chunks)):
            cand = [x for j, c in enumerate(chunks) if j != i for x in c]
            budget[0] -= 1
            if cand and test(cand):
                items = cand
                n = max(n - 1, 2)
                reduced = True
                break
            if budget[0] <= 0:
                break
        if not reduced:
            if size == 1:
                break
            n = min(n * 2, len(items))
    return items


def minimise(pid, record, sig, budget=250):
    """Shrink a failing record while the same signature keeps failing."""
    mod = prop_module(pid)
    b = [budget]

    def fails(rec):
        r = run_record(pid, rec)
        return r["verdict"] == "violation" and r.get("sig") == sig

    cur = record
    if hasattr(mod, "shrink"):
        try:
            cur = mod.shrink(cur, fails, b)
        except Exception:  # noqa
            traceback.print_exc()
    return cur


def write_replay(pid, res, record, tag):
    os.makedirs(os.path.join(OUT, "replays"), exist_ok=True)
    path = os.path.join(OUT, "replays", "%s_%s_%s.json" % (pid, res.get("seed", "x"), tag))
    doc = {"format": 1, "property": pid, "clause": res.get("clause"),
           "signature": res.get("sig"), "seed": res.get("seed"),
           "detail": res.get("detail"), "event_digest": res.get("digest"),
           "tree_digest": util.tree_digest(), "record": record}
    with open(path, "w") as f:
        f.write(util.dumps(doc, indent=1))
    return path


def replay_file(pid, path, verbose=True):
    with open(path) as f:
        doc = util.loads(f.read())
    res = run_record(pid, doc["record"])
    if verbose:
        print("replay of %s: verdict=%s clause=%s sig=%s" % (path, res["verdict"], res.get("clause"), res.get("sig")))
        if res.get("detail"):
            print("  detail: %s" % res["detail"])
        print("  event digest: %s (recorded %s)" % (res.get("digest"), doc.get("event_digest")))
        bysig = dict((k["signature"], k) for k in load_known() if k.get("status") == "known")
        for sg, n in sorted((res.get("known_hits") or {}).items()):
            if sg in bysig:
                print("KNOWN-FINDING: property=%s %s [%s]" % (pid, bysig[sg]["description"], bysig[sg]["id"]))
    same = (res["verdict"] == "violation" and res.get("sig") == doc.get("signature"))
    return res, same


def batch(pid, tier, base_seed, nruns, workers=16, time_budget=None, audit_every=50):
    """Run nruns seeds (base_seed*1_000_003 + i). Returns list of results."""
    first = base_seed * 1000003
    seeds = list(range(first, first + nruns))
    chunk = max(1, min(25 if not time_budget or time_budget > 600 else 6, nruns // (workers * 4) or 1))
    chunks = [seeds[i:i + chunk] for i in range(0, len(seeds), chunk)]
    ctx = multiprocessing.get_context("fork")
    results = []
    t0 = time.time()
    stopped = False
    with cf.ProcessPoolExecutor(max_workers=workers, mp_context=ctx,
                                initializer=_worker_init) as ex:
        deadline = (time.time() + time_budget) if time_budget else None
        futs = [ex.submit(_chunk_worker, (pid, c, tier, audit_every, deadline)) for c in chunks]
        if time_budget:
            # when the budget is used up, whatever has not started yet is dropped (the runs that did
            # execute are complete runs; fewer seeds were explored, nothing else changes)
            _, late = cf.wait(futs, timeout=time_budget)
            for g in late:
                g.cancel()
        for fu in futs:
            try:
                results.extend(fu.result())
            except cf.CancelledError:
                pass
            except Exception as e:  # noqa  (worker died: watchdog or crash)
                r = result_harness("worker died: %s: %s" % (type(e).__name__, e))
                r["seed"] = -1
                r["wall"] = 0
                results.append(r)
                break
    return results, time.time() - t0


def main_check(pid, tier, seed, nruns=None, time_budget=None, workers=16):
    """The body of `./check <ID> --tier <tier>`: returns exit code."""
    mod = prop_module(pid)
    t0 = time.time()
    tiers = mod.TIERS[tier]
    nruns = nruns or tiers["runs"]
    time_budget = time_budget or tiers.get("time_budget")
    print("check %s tier=%s VERIF_SEED=%d runs=%d" % (pid, tier, seed, nruns))
    sys.stdout.flush()
    results, wall = batch(pid, tier, seed, nruns, workers=workers, time_budget=time_budget,
                          audit_every=tiers.get("audit_every", 50))
    known = load_known()
    harness = [r for r in results if r["verdict"] == "harness_error"]
    viols = [r for r in results if r["verdict"] == "violation"]
    known_hits = {}
    new = []
    for r in viols:
        k = match_known(pid, r, known)
        if k is not None:
            known_hits.setdefault(k["id"], [k, 0, r])
            known_hits[k["id"]][1] += 1
        else:
            new.append(r)
    bysigk = dict((k["signature"], k) for k in known if k.get("status") == "known" and k.get("property") == pid)
    for r in results:
        for sg, n in (r.get("known_hits") or {}).items():
            k = bysigk.get(sg)
            if k is not None:
                known_hits.setdefault(k["id"], [k, 0, r])
                known_hits[k["id"]][1] += 1
    exit_code = 0
    if harness:
        for r in harness[:3]:
            print("HARNESS-ERROR property=%s seed=%s %s" % (pid, r.get("seed"), r["detail"][:2000]))
        exit_code = 2
    for kid, (k, n, r) in sorted(known_hits.items()):
        print("KNOWN-FINDING: property=%s %s [%s; %d runs this batch, e.g. seed %s]"
              % (pid, k["description"], kid, n, r.get("seed")))
    reported = []
    if new:
        # group by signature; minimise one representative per signature (in parallel)
        bysig = {}
        for r in new:
            bysig.setdefault(r.get("sig"), []).append(r)
        reps = [rs[0] for rs in bysig.values()][:4]
        ctx = multiprocessing.get_context("fork")
        with cf.ProcessPoolExecutor(max_workers=min(8, len(reps)), mp_context=ctx,
                                    initializer=_worker_init) as ex:
            mins = list(ex.map(_minimise_worker, [(pid, r["record"], r.get("sig")) for r in reps]))
        for r, mrec in zip(reps, mins):
            full = write_replay(pid, r, r["record"], "full")
            rr = run_record(pid, mrec)
            if rr["verdict"] == "violation" and rr.get("sig") == r.get("sig"):
                rr["seed"] = r.get("seed")
                path = write_replay(pid, rr, mrec, "min")
            else:
                path = full
            # replay must reproduce in a fresh process
            ok = replay_in_fresh_process(pid, path)
            if not ok:
                print("HARNESS-ERROR property=%s replay of %s did not reproduce" % (pid, path))
                exit_code = 2
                continue
            print("VIOLATION property=%s replay=%s" % (pid, path))
            print("  clause=%s signature=%s (%d runs in this batch)" % (r.get("clause"), r.get("sig"), len(bysig[r.get("sig")])))
            print("  %s" % (rr.get("detail") or r.get("detail") or "")[:1500])
            reported.append(path)
            if exit_code == 0:
                exit_code = 1
    write_evidence(pid, mod, tier, seed, results, wall, len(new), known_hits, time.time() - t0)
    ok = sum(1 for r in results if r["verdict"] == "ok")
    print("%s %s: %d runs, %d ok, %d violations (%d known), %d harness errors, %.1fs"
          % (pid, tier, len(results), ok, len(viols), len(viols) - len(new), len(harness), time.time() - t0))
    return exit_code


def replay_in_fresh_process(pid, path):
    import subprocess
    cmd = [os.path.join(VERIF, "check"), pid, "--replay", path, "--quiet"]
    try:
        p = subprocess.run(cmd, capture_output=True, text=True, timeout=300)
    except subprocess.TimeoutExpired:
        return False
    return p.returncode == 1


def write_evidence(pid, mod, tier, seed, results, wall, nviol, known_hits, total_wall):
    os.makedirs(EVIDENCE, exist_ok=True)
    evals = len(results)
    digests = set()
    isigs = set()
    agg = {}
    samples = []
    sim_seconds = 0.0
    audited = 0
    for r in results:
        if r.get("audited"):
            audited += 1
        st = r.get("stats") or {}
        for k, v in st.items():
            if isinstance(v, (int, float)) and not isinstance(v, bool):
                agg[k] = agg.get(k, 0) + v
        if r["verdict"] != "harness_error" and r.get("nontrivial") and r.get("digest"):
            digests.add(r["digest"])
        if r.get("isig"):
            isigs.add(r["isig"])
        if r.get("sample") is not None and len(samples) < 3:
            samples.append(r["sample"])
    sim_seconds = agg.pop("sim_seconds", 0.0)
    cov = {
        "evaluations": evals,
        "distinct_nontrivial": len(digests),
        "rule": mod.RULE,
        "samples": samples or [{"note": "no sample recorded"}],
        "runs_per_hour": int(evals / max(wall, 1e-9) * 3600),
        "simulated_seconds_covered": round(sim_seconds, 3),
        "distinct_interleaving_signatures": len(isigs),
        "counters_and_reach_probes": dict(sorted(agg.items())),
        "determinism_audit_reruns": audited,
        "seeds": [seed * 1000003, seed * 1000003 + evals - 1],
        "known_findings_hit": dict((k, v[1]) for k, v in known_hits.items()),
        "real_components": getattr(mod, "REAL", []),
        "stub_components": getattr(mod, "STUBS", []),
    }
    if hasattr(mod, "extra_coverage"):
        cov.update(mod.extra_coverage(results))
    ev = {"property_id": pid, "tier": tier, "seed": seed, "level": mod.LEVEL,
          "coverage": cov, "assumptions": mod.ASSUMPTIONS, "wall_s": round(total_wall, 2),
          "violations": nviol}
    with open(os.path.join(EVIDENCE, "%s.json" % pid), "w") as f:
        json.dump(ev, f, indent=1, sort_keys=True, default=repr)
