"""C09 - scores are the documented composition of the weighting model term scores."""

import copy
import math
import random

from whoosim import engine
from whoosim import model as M
from whoosim import queries as Q
from whoosim.hist import HistActor
from whoosim.kernel import HarnessError, SimAbort, SimKilled
from whoosim.props import _hist, c06
from whoosim.props.c05 import make_weighting
from whoosim.session import Session, Violation, cfg_from_record, exc_sig
from whoosim.workload import DocGen, RunConfig

ID = "C09"
LEVEL = "exploration"
REAL, STUBS = _hist.REAL, _hist.STUBS
RULE = ("per-run seed -> one deletion-free document sequence committed under 2-3 layout schedules (partition into commits, "
        "merge choice per commit, block size, packing) on the simulated machine + a weighting model + 6 generated query "
        "trees over Term / And / Or / DisjunctionMax / Require / AndNot / AndMaybe / ConstantScore with boosts (weightings incl. one with a "
        "final() hook that depends on the document; 40% of the non-baseline layouts are measured through a searcher that scored every leaf "
        "one transaction earlier and was refresh()ed). For every "
        "layout: (b) each compound query's score per document must equal the documented composition of the single-term "
        "scores measured on the same searcher; (c) for BM25F, TF_IDF and Frequency each single-term score must equal the "
        "documented formula evaluated on the reference model's statistics (float32 weight incl. boosts, byte-approximated "
        "length, N, df, average length); (a) scores must be equal across layouts, across collectors (unlimited / limited / "
        "with a filter) and must not depend on which other documents match. Non-trivial = >=2 layouts and >=1 query with "
        "matches; distinct = distinct SHA-256 over the layouts' event logs."
        ' 30% of runs delete + optimize after a layout was measured and re-check formula and composition on the live documents.'
        ' One-clause compounds; a boost multiplies whatever a prefix expands to.')
ASSUMPTIONS = ["documented composition: And/Or sum over the clauses that match the document, DisjunctionMax maximum, Require/AndNot first operand, AndMaybe first plus second when present, ConstantScoreQuery its constant, each times the query boost",
               "formulas from the BM25F/TF_IDF/Frequency docstrings: idf = ln(N/(df+1))+1; bm25 = idf*tf*(K1+1)/(tf+K1*((1-B)+B*fl/avgfl)); tf_idf = tf*idf; frequency = tf",
               "PL2/DFree/Function/Multi/Reverse are covered by clauses (a) and (b) only (their formulas would have to be copied from the source, which is not an oracle)",
               "deletion-free histories only: with deletions the statistics are physical by design"]
TIERS = {"quick": {"runs": 1000, "time_budget": 100, "audit_every": 40},
         "thorough": {"runs": 12000, "time_budget": 1500, "audit_every": 100}}

TOL = 1e-6


def gen_scored_query(rng, cfg, depth):
    tfields = [f for f in cfg.fields if f in ("t", "tc", "tb", "tv", "kw")]

    def leaf():
        f = rng.choice(tfields)
        q = ["term", f, rng.choice(cfg.vocab)]
        if rng.random() < 0.2:
            q = ["boost", q, rng.choice((0.5, 2.0, 3.0))]
        return q
    if depth <= 0 or rng.random() < 0.25:
        return leaf()
    c = rng.choice(("and", "or", "or", "dismax", "require", "andnot", "andmaybe", "const"))
    sub = lambda: gen_scored_query(rng, cfg, depth - 1)
    # (one clause is legal too: a query builder that collects clauses in a list ends up with it)
    n = 1 if rng.random() < 0.12 else rng.randint(2, 3)
    if c in ("and", "or"):
        q = [c, [sub() for _ in range(n)]]
    elif c == "dismax":
        q = ["dismax", [sub() for _ in range(n)], 0.0]
    elif c == "const":
        q = ["const", sub(), rng.choice((1.0, 2.5))]
    else:
        q = [c, sub(), sub()]
    # (with_boost() on a binary query replaces the boosts of its operands, and
    # on an already boosted query replaces that boost: only boost n-ary
    # compounds, whose own boost multiplies what is below)
    if rng.random() < 0.2 and c in ("and", "or", "dismax"):
        q = ["boost", q, rng.choice((0.5, 2.0))]
    return q


def generate(seed, tier):
    from whoosim import seams
    seams.load_whoosh()
    crng = random.Random("%s/config" % seed)
    wrng = random.Random("%s/workload" % seed)
    mrng = random.Random("%s/mode" % seed)
    want = [n for n in ("kw", "tb", "tc") if mrng.random() < 0.5]
    cfg = RunConfig(crng, allow=["kw", "tb", "tc"], want=want,
                    force={"long_text_p": mrng.choice((0.0, 0.0, 0.15)), "limitmb": 128, "inlinelimit": 1})
    cfg.vocab = cfg.vocab[:mrng.randint(4, 8)]
    dg = DocGen(cfg, wrng, nkeys=10 ** 6)
    key = [0]
    rounds = []
    for _ in range(mrng.randint(1, 4)):
        rnd = []
        for _ in range(wrng.randint(2, 9)):
            key[0] += 1
            rnd.append(["add", dg.doc(key=key[0], sparse_p=0.15)])
        rounds.append(rnd)
    layouts = [{"ops": c06.layout_ops(wrng, rounds, baseline=True), "knobs": {}}]
    for _ in range(mrng.randint(1, 2)):
        knobs = {"blocklimit": wrng.choice((1, 2, 3, 8, 128)), "compound": wrng.random() < 0.6}
        layouts.append({"ops": c06.layout_ops(wrng, rounds, merges=("none", "none", "optimize", "custom")), "knobs": knobs,
                        "refresh": mrng.random() < 0.4})
    # 30% of the runs: after a layout has been measured, some of its documents are deleted and the index is
    # optimized - the statistics behind the scores must then be those of the documents that are left
    pr = random.Random("%s/post" % seed)
    if pr.random() < 0.3 and key[0] >= 3:
        dels = pr.sample(range(1, key[0] + 1), pr.randint(1, max(1, key[0] // 2)))
        layouts[-1]["post"] = ([["writer", {}]] + [["del_term", "k", u"k%03d" % k_] for k_ in dels]
                               + [["commit", {"merge": pr.choice(("optimize", "optimize", "default"))}]])
    qr = random.Random("%s/queries" % seed)
    w = mrng.choice(("bm25f", "bm25f", "bm25f_params", "bm25f_fieldb", "tfidf", "frequency", "pl2", "dfree", "multi", "reverse", "function",
                     "bm25f_final"))
    wspec = [w]
    if w == "bm25f_params":
        wspec = [w, mrng.choice((0.0, 0.3, 0.75, 1.0)), mrng.choice((0.5, 1.2, 2.0))]
    elif w == "bm25f_fieldb":
        wspec = [w, 0.75, 1.2, mrng.choice((0.0, 0.5, 1.0))]
    elif w == "pl2":
        wspec = [w, mrng.choice((0.5, 1.0, 3.0))]
    return {"prop": ID, "seed": seed, "config": cfg.describe(), "layouts": layouts,
            "queries": [gen_scored_query(qr, cfg, qr.choice((1, 2, 2, 3))) for _ in range(6)],
            "weighting": wspec, "has_deletes": False}


def leaves(spec, out):
    k = spec[0]
    if k == "term":
        out.add((spec[1], spec[2]))
    elif k in ("and", "or", "dismax"):
        for s in spec[1]:
            leaves(s, out)
    elif k in ("boost", "const", "not"):
        leaves(spec[1], out)
    elif k in ("andnot", "andmaybe", "require"):
        leaves(spec[1], out)
        leaves(spec[2], out)
    return out


def compose(spec, uid, leafscores):
    """Documented composition; None = document does not match."""
    k = spec[0]
    if k == "term":
        return leafscores.get((spec[1], spec[2]), {}).get(uid)
    if k == "and":
        tot = 0.0
        for s in spec[1]:
            v = compose(s, uid, leafscores)
            if v is None:
                return None
            tot += v
        return tot
    if k == "or":
        vs = [compose(s, uid, leafscores) for s in spec[1]]
        vs = [v for v in vs if v is not None]
        return sum(vs) if vs else None
    if k == "dismax":
        vs = [compose(s, uid, leafscores) for s in spec[1]]
        vs = [v for v in vs if v is not None]
        return max(vs) if vs else None
    if k == "require":
        a = compose(spec[1], uid, leafscores)
        b = compose(spec[2], uid, leafscores)
        return a if (a is not None and b is not None) else None
    if k == "andnot":
        a = compose(spec[1], uid, leafscores)
        b = compose(spec[2], uid, leafscores)
        return a if (a is not None and b is None) else None
    if k == "andmaybe":
        a = compose(spec[1], uid, leafscores)
        if a is None:
            return None
        b = compose(spec[2], uid, leafscores)
        return a + (b or 0.0) if b is not None else a
    if k == "boost":
        inner = spec[1]
        while inner[0] == "boost":      # with_boost() replaces an existing boost
            inner = inner[1]
        v = compose(inner, uid, leafscores)
        return None if v is None else v * spec[2]
    if k == "const":
        v = compose(spec[1], uid, leafscores)
        return None if v is None else spec[2]
    raise HarnessError(spec)


def close(a, b, tol=TOL):
    return abs(a - b) <= tol * max(1.0, abs(a), abs(b))


def reference_leaf(wspec, field, text, docs, schema, field_names, avg_override=None):
    """Documented formula on model statistics -> {uid: score} or None when
    the model has no documented reference formula."""
    kind = wspec[0]
    if kind == "bm25f_final":
        kind = "bm25f"     # (measure() has already removed the final() hook's contribution)
    if kind not in ("bm25f", "bm25f_params", "bm25f_fieldb", "tfidf", "frequency"):
        return None
    fobj = schema[field]
    tb = fobj.to_bytes(text)
    n = len(docs)
    having = [d for d in docs if tb in d.postings.get(field, {})]
    df = len(having)
    if not df:
        return {}
    idf = math.log(n / (df + 1.0)) + 1.0
    out = {}
    if kind == "frequency" or not fobj.scorable:
        for d in having:
            out[d.uid] = d.postings[field][tb][1]
        if kind == "tfidf" and not fobj.scorable:
            pass
        return out if (kind == "frequency" or not fobj.scorable) else out
    if kind == "tfidf":
        for d in having:
            out[d.uid] = d.postings[field][tb][1] * idf
        return out
    B, K1 = 0.75, 1.2
    if kind == "bm25f_params":
        B, K1 = wspec[1], wspec[2]
    elif kind == "bm25f_fieldb":
        B, K1 = wspec[1], wspec[2]
        if field == "t":
            B = wspec[3]
    total = sum(d.lengths.get(field, 0) for d in docs)
    avgfl = (avg_override if avg_override is not None else (total / float(n or 1))) or 1
    for d in having:
        tf = d.postings[field][tb][1]
        fl = M.approx_len(d.lengths.get(field, 0)) or 1
        out[d.uid] = idf * ((tf * (K1 + 1)) / (tf + K1 * ((1 - B) + B * fl / avgfl)))
    return out


def warm(s, ix, record):
    """A long-lived searcher that has already scored every leaf (its caches are warm)."""
    from whoosh import query
    srch = ix.searcher(weighting=make_weighting(record["weighting"]))
    lv = set()
    for spec in record["queries"]:
        leaves(spec, lv)
    for (f, t) in sorted(lv):
        try:
            list(srch.search(query.Term(f, t), limit=None))
            list(srch.search(query.Term(f, t), limit=2, sortedby="k"))
        except (SimAbort, SimKilled, HarnessError):
            raise
        except Exception as e:  # noqa
            raise Violation("search_raised", "warm-up search raised %s: %s" % (type(e).__name__, e), sig="search_raised:" + exc_sig(e))
    return srch


def measure(s, ix, record, searcher=None):
    """Scores of every query and leaf on this layout: returns tables."""
    weighting = make_weighting(record["weighting"])
    mi = s.model
    tables = {"leaf": {}, "query": [], "limited": [], "limited_neutralised": [], "filtered": [], "flen": {}}
    from whoosim.props.c05 import neutralise_unscaled_boost, has_boost_above_one
    with (searcher if searcher is not None else ix.searcher(weighting=weighting)) as srch:
        # a final() hook adds FINAL_ADJ * uid to every hit (its documented effect); it is taken
        # out again here, so that what remains must obey the rules of plain BM25F
        from whoosim.props.c05 import FINAL_ADJ
        adj = FINAL_ADJ if record["weighting"][0] == "bm25f_final" else 0.0

        def run(q, **kw):
            try:
                r = srch.search(q, **kw)
                return dict((h["u"], h.score - adj * h["u"]) for h in r)
            except (SimAbort, SimKilled, HarnessError):
                raise
            except Exception as e:  # noqa
                raise Violation("search_raised", "search(%r, %r) with %s raised %s: %s" % (q, kw, record["weighting"], type(e).__name__, e),
                                sig="search_raised:" + exc_sig(e))
        lv = set()
        for spec in record["queries"]:
            leaves(spec, lv)
        for (f, t) in sorted(lv):
            from whoosh import query
            tables["leaf"][(f, t)] = run(query.Term(f, t), limit=None)
        for f in mi.field_names:
            if mi.schema[f].scorable:
                tables["flen"][f] = srch.reader().field_length(f)
        # a boost multiplies, whatever the query expands to: prefixes of the run's words (some expand to
        # one term, some to several) with and without a boost
        from whoosh import query as _q
        tables["prefix"] = []
        if "t" in mi.field_names:
            seen = set()
            for w in list(s.cfg.vocab)[:4]:
                for n in (2, len(w) - 1):
                    p = w[:max(1, n)]
                    if p in seen:
                        continue
                    seen.add(p)
                    tables["prefix"].append((p, run(_q.Prefix("t", p), limit=None), run(_q.Prefix("t", p, boost=2.5), limit=None)))
        for spec in record["queries"]:
            q = Q.build(spec, mi.schema)
            tables["query"].append(run(q, limit=None))
            tables["limited"].append(run(q, limit=3))
            if has_boost_above_one(spec):
                with neutralise_unscaled_boost():
                    tables["limited_neutralised"].append(run(q, limit=3))
            else:
                tables["limited_neutralised"].append(None)
            # the score must not depend on which other documents match
            from whoosh import query
            fl = query.Term("k", u"k%03d" % 1)
            some = sorted(tables["query"][-1])[:1]
            if some:
                d = [x for x in mi.docs if x.uid == some[0]][0]
                tables["filtered"].append((some[0], run(q, limit=None, filter=query.Term("k", d.key))))
            else:
                tables["filtered"].append(None)
    return tables


def check_layout(s, record, tables, li):
    mi = s.model
    wspec = record["weighting"]
    # (c) leaf formula
    for (f, t), got in tables["leaf"].items():
        ref = reference_leaf(wspec, f, t, mi.docs, mi.schema, mi.field_names)
        if ref is None:
            continue
        s.count("leaf_formula_checks")
        if set(ref) != set(got):
            raise Violation("leaf_score_formula", "layout %d: Term(%s,%s) matched uids %s, model says %s" % (li, f, t, sorted(got), sorted(ref)),
                            sig="leaf_score:matched_set")
        bad = [(u, got[u], ref[u]) for u in ref if not close(got[u], ref[u])]
        if bad:
            # recorded finding: average length re-summed from 1-byte approximations after a merge
            obs_total = tables["flen"].get(f)
            n = len(mi.docs)
            ref2 = reference_leaf(wspec, f, t, mi.docs, mi.schema, mi.field_names,
                                  avg_override=(obs_total / float(n or 1)) if obs_total is not None else None)
            if ref2 is not None and all(close(got[u], ref2[u]) for u in ref2):
                exact = sum(d.lengths.get(f, 0) for d in mi.docs)
                approx = sum(M.approx_len(d.lengths.get(f, 0)) for d in mi.docs)
                lo, hi = sorted((exact, approx))
                if s.merged and obs_total != exact and lo <= obs_total <= hi:
                    s.soft(Violation("leaf_score_formula", "layout %d: Term(%s,%s) scores follow the documented formula only with field_length=%s (exact total %s): %s"
                                     % (li, f, t, obs_total, exact, bad[:2]), sig="scores:avg_length_resummed_after_merge"))
                    continue
            raise Violation("leaf_score_formula", "layout %d: Term(%s,%s) with %s: (uid, observed, documented formula) = %s"
                            % (li, f, t, wspec, bad[:3]), sig="leaf_score:" + wspec[0])
    # boosts multiply (multi-term queries)
    if wspec[0] != "bm25f_final":
        for p, plain, boosted in tables.get("prefix") or []:
            s.count("prefix_boost_checks")
            if set(plain) != set(boosted):
                raise Violation("score_composition", "layout %d: Prefix(t,%r) matches %s, with boost=2.5 %s" % (li, p, sorted(plain), sorted(boosted)), sig="score_composition:prefix_boost:set")
            bad = [(u, plain[u], boosted[u]) for u in plain if not close(boosted[u], 2.5 * plain[u])]
            if bad:
                raise Violation("score_composition", "layout %d: Prefix(t,%r, boost=2.5) with %s: (uid, score without boost, score with boost) = %s - the boost does not multiply"
                                % (li, p, wspec, bad[:3]), sig="score_composition:prefix_boost")
    # (b) composition
    for qi, spec in enumerate(record["queries"]):
        got = tables["query"][qi]
        s.count("composition_checks")
        uids = set(d.uid for d in mi.docs)
        for u in uids:
            exp = compose(spec, u, tables["leaf"])
            g = got.get(u)
            if (exp is None) != (g is None):
                raise Violation("score_composition", "layout %d: %s: uid %s %s but the composition of its clauses says it %s"
                                % (li, Q.show(spec), u, "is returned" if g is not None else "is not returned",
                                   "does not match" if exp is None else "matches"), sig="score_composition:matched_set")
            if exp is not None and not close(exp, g):
                raise Violation("score_composition", "layout %d: %s with %s: uid %s scored %r, documented composition of its term scores gives %r"
                                % (li, Q.show(spec), wspec, u, g, exp), sig="score_composition:" + top_kind(spec))
        # (a) collector independence
        lim = tables["limited"][qi]
        for u, sc in lim.items():
            if u not in got or not close(sc, got[u]):
                alt = tables["limited_neutralised"][qi]
                if alt is not None and all(x in got and close(alt[x], got[x]) for x in alt):
                    s.soft(Violation("score_collector_independent", "layout %d: %s: uid %s scored %r with limit=3 and %r with limit=None; the scores agree once WrappingMatcher.replace() scales its threshold by the boost"
                                     % (li, Q.show(spec), u, sc, got.get(u)), sig="score_collector_independent:unscaled_boost_in_replace"))
                    break
                raise Violation("score_collector_independent", "layout %d: %s: uid %s scored %r with limit=3 and %r with limit=None"
                                % (li, Q.show(spec), u, sc, got.get(u)), sig="score_collector_independent:limit")
        fl = tables["filtered"][qi]
        if fl is not None:
            u, res = fl
            if u in res and not close(res[u], got[u]):
                raise Violation("score_independent_of_other_matches", "layout %d: %s: uid %s scored %r when a filter left it alone in the result, %r otherwise"
                                % (li, Q.show(spec), u, res[u], got[u]), sig="score_independent_of_other_matches")


def top_kind(spec):
    k = spec[0]
    if k == "boost":
        return "boost/" + top_kind(spec[1])
    return k


def run_layout(record, li):
    lay = record["layouts"][li]
    conf = dict(record["config"])
    conf.update(lay.get("knobs") or {})
    cfg = cfg_from_record(conf)
    s = Session(record["seed"], cfg=cfg)
    s.merged = False
    try:
        def before_commit(actor, m):
            if m in ("optimize", "default", "custom"):
                s.merged = True
        actor = HistActor(s, before_commit=before_commit)
        try:
            ops = lay["ops"]
            starts = [i for i, op in enumerate(ops) if op[0] == "writer"]
            refreshed = None
            if lay.get("refresh") and len(starts) >= 2:
                # the statistics behind a score are those of the generation searched: a searcher
                # that scored the same terms one generation ago and was refresh()ed must agree
                actor.run(ops[:starts[-1]])
                old = warm(s, actor.ensure_index(), record)
                actor.run(ops[starts[-1]:])
                try:
                    refreshed = old.refresh()
                except (SimAbort, SimKilled, HarnessError):
                    raise
                except Exception as e:  # noqa
                    raise Violation("search_raised", "refresh() raised %s: %s" % (type(e).__name__, e), sig="refresh_raised:" + exc_sig(e))
                s.count("measured_through_refresh")
            else:
                actor.run(ops)
            s.count("probes")
            tables = measure(s, actor.ensure_index(), record, searcher=refreshed)
            check_layout(s, record, tables, li)
            if lay.get("post"):
                actor.run(lay["post"])
                rdr = actor.ensure_index().reader()
                try:
                    clean = not rdr.has_deletions()
                finally:
                    rdr.close()
                if clean:
                    # nothing deleted is left in the index: formula and composition on the live documents
                    s.count("post_delete_optimize_checks")
                    check_layout(s, record, measure(s, actor.ensure_index(), record), li)
            st = s.full_stats()
            st["events"] = s.k.seq
            st["sim_seconds"] = (s.k.now_us - 1_700_000_000_000_000) / 1e6
            return None, st, s.k.event_digest(), tables, dict(s.known_hits)
        except Violation as v:
            return v, s.full_stats(), s.k.event_digest(), None, dict(s.known_hits)
    finally:
        s.close()


def execute(record, trace=False):
    import hashlib
    h = hashlib.sha256()
    agg = {}
    khits = {}
    nlay = len(record["layouts"])
    alltables = []
    for li in range(nlay):
        try:
            v, st, dg, tables, kh = run_layout(record, li)
        except (SimAbort, SimKilled) as e:
            return engine.result_harness("layout %d aborted: %s" % (li, type(e).__name__))
        except HarnessError as e:
            return engine.result_harness("HarnessError: %s" % e)
        h.update(dg.encode())
        for sg, n in kh.items():
            khits[sg] = khits.get(sg, 0) + n
        for k, x in st.items():
            if isinstance(x, (int, float)):
                agg[k] = agg.get(k, 0) + x
        if v is not None:
            res = engine.result_violation(v.clause, v.detail, sig=v.sig, stats=agg, digest=h.hexdigest())
            res["layout_index"] = li
            return res
        alltables.append(tables)
    # (a) layout independence
    base = alltables[0]
    for li in range(1, nlay):
        t = alltables[li]
        for qi, spec in enumerate(record["queries"]):
            a, b = base["query"][qi], t["query"][qi]
            if set(a) != set(b):
                return engine.result_violation("score_layout_independent", "%s: layouts 0 and %d match different documents: %s vs %s"
                                               % (Q.show(spec), li, sorted(a), sorted(b)), sig="score_layout_independent:matched_set",
                                               stats=agg, digest=h.hexdigest())
            bad = [(u, a[u], b[u]) for u in a if not close(a[u], b[u])]
            if bad:
                if khits.get("scores:avg_length_resummed_after_merge") or base["flen"] != t["flen"]:
                    khits["scores:avg_length_resummed_after_merge"] = khits.get("scores:avg_length_resummed_after_merge", 0) + 1
                    known = [k for k in engine.load_known() if k.get("signature") == "scores:avg_length_resummed_after_merge" and k.get("status") == "known"]
                    if known:
                        continue
                return engine.result_violation("score_layout_independent", "%s with %s: (uid, score in layout 0, score in layout %d) = %s"
                                               % (Q.show(spec), record["weighting"], li, bad[:3]), sig="score_layout_independent",
                                               stats=agg, digest=h.hexdigest())
    agg["layouts"] = nlay
    agg["weighting_" + record["weighting"][0]] = 1
    nonempty = sum(1 for q in alltables[0]["query"] if q)
    smp = {"seed": record["seed"], "weighting": record["weighting"], "queries": [Q.show(q) for q in record["queries"][:4]],
           "layouts": [[(op[0] if op[0] != "commit" else "commit:" + op[1]["merge"]) for op in l["ops"]][:20] for l in record["layouts"]]}
    res = engine.result_ok(stats=agg, digest=h.hexdigest(), nontrivial=(nlay >= 2 and nonempty > 0), sample=smp)
    res["known_hits"] = khits
    return res


def shrink(record, fails, budget):
    cur = copy.deepcopy(record)
    for q in record["queries"]:
        t = copy.deepcopy(cur)
        t["queries"] = [q]
        budget[0] -= 1
        if fails(t):
            cur = t
            break
    r0 = execute(cur)
    li = r0.get("layout_index")
    if li is not None:
        t = copy.deepcopy(cur)
        t["layouts"] = [cur["layouts"][li]]
        budget[0] -= 1
        if fails(t):
            cur = t
    from whoosim.props.c01 import subtrees
    changed = True
    while changed and budget[0] > 0 and cur["queries"]:
        changed = False
        for cand in subtrees(cur["queries"][0]):
            t = copy.deepcopy(cur)
            t["queries"] = [cand]
            budget[0] -= 1
            if fails(t):
                cur = t
                changed = True
                break
            if budget[0] <= 0:
                break
    if len(cur["layouts"]) == 1:
        conf = dict(cur["config"])
        conf.update(cur["layouts"][0].get("knobs") or {})
        flat = {"prop": ID, "seed": cur["seed"], "config": conf, "ops": cur["layouts"][0]["ops"]}

        def fails_flat(rec):
            full = dict(cur)
            full["config"] = rec["config"]
            full["layouts"] = [{"ops": rec["ops"], "knobs": {}}]
            return fails(full)
        flat = _hist.shrink_hist(flat, fails_flat, budget)
        cur["config"] = flat["config"]
        cur["layouts"] = [{"ops": flat["ops"], "knobs": {}}]
    return cur
