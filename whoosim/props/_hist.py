"""Shared generate/execute/shrink plumbing for the history-driven checks."""

import copy
import traceback

from whoosim import engine, util
from whoosim.hist import HistActor, gen_history
from whoosim.kernel import HarnessError, SimAbort, SimKilled
from whoosim.session import Session, Violation, cfg_from_record
from whoosim.workload import DocGen, RunConfig

REAL = ["whoosh.index (TOC, FileIndex, clean_files)", "whoosh.writing (SegmentWriter, merge policies)",
        "whoosh.filedb.filestore.FileStorage", "whoosh.filedb.structfile", "whoosh.filedb.compound (CompoundStorage/Writer, mmap and SubFile branches)",
        "whoosh.filedb.filetables", "whoosh.util.filelock.FcntlLock/try_for", "whoosh.externalsort / PostingPool (spilling)",
        "whoosh.codec.whoosh3 (all readers/writers)", "whoosh.reading", "whoosh.searching", "whoosh.collectors",
        "whoosh.matching", "whoosh.query", "whoosh.scoring", "whoosh.sorting", "whoosh.columns", "whoosh.fields/formats/analysis"]
STUBS = ["builtins.open / os.* / os.path.* (in-memory POSIX file system with unlink-while-open semantics and torn user-space write buffers)",
         "fcntl.flock (on open file descriptions)", "mmap.mmap (anonymous map filled from the simulated inode)",
         "time.time/sleep/perf_counter (discrete-event clock)", "random (segment/run/temp names from the seeded 'names' stream)",
         "tempfile.gettempdir/mkstemp", "threading.Lock/RLock/Timer/Thread.start/join, multiprocessing.Process.start/join/Queue (tasks under the seeded baton scheduler)"]

DEFAULT_KNOBS = {"bufsize": 8192, "hide_fileno": False, "compound": True,
                 "blocklimit": 128, "compression": 3, "limitmb": 128,
                 "inlinelimit": 1, "mmap": True, "cbuf": 32768, "offcut": 32768, "aupart": 2048}


def make_record(pid, seed, cfg, ops, **extra):
    rec = {"prop": pid, "seed": seed, "config": cfg.describe(), "ops": ops}
    rec.update(extra)
    return rec


def generate_hist(pid, seed, gen_kwargs=None, cfg_kwargs=None, nkeys=12, docgen_kwargs=None, **extra):
    """Draw a config and a history for seed (pure function of seed)."""
    import random
    crng = random.Random("%s/config" % seed)
    wrng = random.Random("%s/workload" % seed)
    from whoosim import seams
    seams.load_whoosh()
    cfg = RunConfig(crng, **(cfg_kwargs or {}))
    dg = DocGen(cfg, wrng, nkeys=nkeys, **(docgen_kwargs or {}))
    gk = dict(gen_kwargs or {})
    for k, v in list(gk.items()):
        if callable(v):
            gk[k] = v(wrng)
    ops = gen_history(wrng, cfg, dg, **gk)
    return make_record(pid, seed, cfg, ops, **extra)


def execute_hist(record, make_hooks, trace=False):
    """make_hooks(session, record) -> dict(after_commit=, after_abort=, on_op=, finish=)"""
    cfg = cfg_from_record(record["config"])
    s = Session(record["seed"], cfg=cfg, keep_log=trace)
    res = None
    try:
        hooks = make_hooks(s, record)
        actor = HistActor(s, after_commit=hooks.get("after_commit"),
                          after_abort=hooks.get("after_abort"), on_op=hooks.get("on_op"),
                          writer_factory=hooks.get("writer_factory"))
        try:
            actor.run(record["ops"])
            if hooks.get("finish"):
                hooks["finish"](actor)
            st = s.full_stats()
            st.update(s.k.counters)
            st["events"] = s.k.seq
            st["sim_seconds"] = (s.k.now_us - 1_700_000_000_000_000) / 1e6
            nontrivial = st.get("commits", 0) >= 1 and st.get("probes", 0) >= 1
            res = engine.result_ok(stats=st, digest=s.k.event_digest(), nontrivial=nontrivial,
                                   notes=hooks.get("notes"), sample=sample_of(record))
            res["known_hits"] = dict(s.known_hits)
        except Violation as v:
            st = s.full_stats()
            st.update(s.k.counters)
            st["events"] = s.k.seq
            res = engine.result_violation(v.clause, v.detail, sig=v.sig, stats=st,
                                          digest=s.k.event_digest())
        except (SimAbort, SimKilled) as e:
            res = engine.result_harness("run aborted: %s (%s)" % (s.k.abort_reason, type(e).__name__))
        except HarnessError as e:
            res = engine.result_harness("HarnessError: %s" % e)
        if trace:
            res["log"] = s.k.log
    finally:
        s.close()
    return res


def sample_of(record):
    ops = record["ops"]
    short = []
    for op in ops[:14]:
        if op[0] in ("add", "update"):
            d = op[1]
            short.append([op[0], {"k": d.get("k"), "u": d.get("u"), "t": (d.get("t") or "")[:40],
                                  "other_fields": sorted(x for x in d if x not in ("k", "u", "t"))}])
        elif op[0] == "group":
            short.append(["group", [d.get("u") for d in op[1]]])
        else:
            short.append(op)
    return util.enc({"seed": record["seed"], "knobs": dict((k, v) for k, v in record["config"].items() if k not in ("vocab",)),
                     "ops(first 14 of %d)" % len(ops): short})


def shrink_hist(record, fails, budget):
    """ddmin over ops, then simplify ops, documents and knobs."""
    cur = copy.deepcopy(record)

    def with_ops(ops):
        r = dict(cur)
        r["ops"] = ops
        return r

    ops = engine.ddmin_list(cur["ops"], lambda o: fails(with_ops(o)), budget)
    cur["ops"] = ops
    # simplify individual ops
    i = 0
    while i < len(cur["ops"]) and budget[0] > 0:
        op = cur["ops"][i]
        cands = []
        if op[0] == "commit" and op[1].get("merge") != "none":
            cands.append(["commit", {"merge": "none"}])
        if op[0] == "group":
            for j in range(len(op[1])):
                cands.append(["group", op[1][:j] + op[1][j + 1:]])
            cands.append(["add", op[1][0]])
        if op[0] in ("add", "update"):
            d = op[1]
            for f in sorted(d):
                if f in ("k", "u"):
                    continue
                nd = dict(d)
                del nd[f]
                cands.append([op[0], nd])
            if op[0] == "update":
                cands.append(["add", d])
            for f in ("t", "tc", "tb", "tv"):
                if isinstance(d.get(f), str) and len(d[f].split()) > 1:
                    ws = d[f].split()
                    nd = dict(d)
                    nd[f] = u" ".join(ws[:len(ws) // 2])
                    cands.append([op[0], nd])
        done = False
        for c in cands:
            budget[0] -= 1
            trial = cur["ops"][:i] + [c] + cur["ops"][i + 1:]
            if fails(with_ops(trial)):
                cur["ops"] = trial
                done = True
                break
            if budget[0] <= 0:
                break
        if not done:
            i += 1
    # knobs towards defaults
    for k, v in DEFAULT_KNOBS.items():
        if budget[0] <= 0:
            break
        if cur["config"].get(k) != v:
            trial = copy.deepcopy(cur)
            trial["config"][k] = v
            budget[0] -= 1
            if fails(trial):
                cur = trial
    # unused fields out of the schema
    used = set(["k", "u", "t"])
    for op in cur["ops"]:
        if op[0] in ("add", "update"):
            used |= set(x for x in op[1] if not x.startswith("_"))
        elif op[0] == "group":
            for d in op[1]:
                used |= set(x for x in d if not x.startswith("_"))
        elif op[0] in ("add_field", "remove_field"):
            used.add(op[1])
        elif op[0] in ("del_term",):
            used.add(op[1])
    trial = copy.deepcopy(cur)
    trial["config"]["fields"] = [f for f in cur["config"]["fields"] if f in used]
    if trial["config"]["fields"] != cur["config"]["fields"] and budget[0] > 0:
        budget[0] -= 1
        if fails(trial):
            cur = trial
    return cur
