"""C14 - sorting, grouping, collapsing, filtering, paging are exact views of the results."""

import copy
import random

from whoosim import engine
from whoosim import queries as Q
from whoosim.kernel import HarnessError, SimAbort, SimKilled
from whoosim.props import _hist
from whoosim.session import Violation, cfg_from_record, exc_sig

ID = "C14"
LEVEL = "exploration"
REAL, STUBS = _hist.REAL, _hist.STUBS
RULE = ("per-run seed -> knobs + a history of 2-6 writer transactions (merges none/default/optimize/custom, deletions, "
        "restarts) in which the sortable fields (a column-backed ID 'so', a numeric 'n') may be ADDED to the schema after the "
        "first segments were written, so that some segments lack the column; the ID has a posting-backed twin 'sp' with the "
        "same values. On the final multi-segment state 4 generated queries are run through: sortedby on every key incl. "
        "reversed (per-facet and search-level reverse=True: limited = prefix, page = slice) and two-key mixed directions, documents "
        "without a value must form one block at one end; groupedby (incl. an overlapping KEYWORD facet) with every group container "
        "(ordered list, unordered list, count, best); collapse with limit 1-2; filter and mask given as query, Results and id set "
        "(incl. filtered_count); search_page over several page sizes; len(results) under limits. Order and group keys come from the reference model; filter/mask/paging are compared with the "
        "unfiltered ranking of the same simulated state. Non-trivial = >=2 segments or deletions, and >=1 query with "
        ">=2 matches; distinct = distinct event-log SHA-256 x queries."
        ' Filter and mask together, caller objects unchanged and reusable; limited collapsed search = head of the unlimited one.')
ASSUMPTIONS = ["the statement does not fix where documents WITHOUT a value for a sort key go, or how their group is named (the shipped paths disagree: see DESIGN section 7 C14): the order clause is evaluated on the results that have a value for every key, groups are compared as sets of documents over documents that have a value, and the placement/name of the others is recorded, not judged",
               "ties in the sort keys must come in ascending document order",
               "analysis is trusted; sort keys of text fields compare by their UTF-8 term bytes"]
TIERS = {"quick": {"runs": 600, "time_budget": 100, "audit_every": 40},
         "thorough": {"runs": 25000, "time_budget": 1500, "audit_every": 100}}


def generate(seed, tier):
    r = random.Random("%s/mode" % seed)
    late = r.random() < 0.5
    want = ["kw"] if r.random() < 0.6 else []
    if not late:
        want += ["so", "n"]
    rec = _hist.generate_hist(
        ID, seed,
        gen_kwargs={"ntx": (2, 6), "maxops": 7, "p_iofault": 0.0, "p_raise": 0.0, "p_cancel": 0.02,
                    "p_restart": 0.2, "p_delete": r.choice((0.0, 0.15, 0.3)),
                    "merges": ("none", "none", "none", "default", "optimize", "custom")},
        cfg_kwargs={"want": want, "allow": ["kw", "so", "sp", "n"], "force": {"long_text_p": 0.0}})
    if late:
        # add the sortable fields in a later transaction
        ops = rec["ops"]
        widx = [i for i, op in enumerate(ops) if op[0] == "writer"]
        if len(widx) >= 2:
            at = widx[r.randrange(1, len(widx))] + 1
            for nm in ("so", "n"):
                if nm not in rec["config"]["fields"]:
                    ops.insert(at, ["add_field", nm])
            # documents after that point get values for the new fields
            wr = random.Random("%s/late" % seed)
            for op in ops[at:]:
                docs = [op[1]] if op[0] in ("add", "update") else (op[1] if op[0] == "group" else [])
                for d in docs:
                    if wr.random() < 0.8:
                        d["so"] = wr.choice(rec["config"]["vocab"])
                        if "sp" in rec["config"]["fields"]:
                            d["sp"] = d["so"]
                    if wr.random() < 0.8:
                        d["n"] = wr.randint(-50, 50)
    cfg = cfg_from_record(rec["config"])
    qr = random.Random("%s/queries" % seed)
    rec["queries"] = [["every"]] + [Q.gen_query(qr, cfg, depth=qr.choice((1, 2)), simple=True) for _ in range(3)]
    rec["late_fields"] = late
    return rec


def sort_value(d, f, schema):
    """Model sort key of document d for field f, or None when it has none.
    A value equal to the column default is indistinguishable from 'no value'
    on the column-backed paths (documents without a value share it), so it
    is treated like a missing value: placement not judged."""
    if f == "n":
        v = d.fields.get("n")
        if v == 2147483647:
            return None
        return v if (v is not None and "n" in d.postings) else None
    v = d.fields.get(f)
    if v is None or f not in d.postings:
        return None
    return v.encode("utf-8")


def check_sorted(where, desc, got, keys, docs_by_uid, schema):
    """got: list of (uid, docnum) in result order; keys: [(field, reverse)]"""
    have = []
    for uid, dn in got:
        d = docs_by_uid[uid]
        vals = [sort_value(d, f, schema) for f, _ in keys]
        if all(v is not None for v in vals):
            have.append((uid, dn, vals))
    for (u1, d1, v1), (u2, d2, v2) in zip(have, have[1:]):
        cmp = 0
        for (f, rev), a, b in zip(keys, v1, v2):
            if a != b:
                cmp = -1 if ((a < b) != rev) else 1
                break
        if cmp > 0:
            raise Violation("sorted_order_exact", "%s: %s: uid %s (keys %s) comes before uid %s (keys %s)"
                            % (where, desc, u1, v1, u2, v2), sig="sorted_order:" + "+".join("%s%s" % (f, "-" if rev else "") for f, rev in keys))
        if cmp == 0 and d1 > d2:
            raise Violation("sorted_order_exact", "%s: %s: equal keys %s but document %d comes before document %d"
                            % (where, desc, v1, d1, d2), sig="sorted_ties:" + "+".join(f for f, _ in keys))
    return len(have)


_NODEFAULT = object()


def model_eq_default(v, dflt):
    try:
        if isinstance(v, bytes) and not isinstance(dflt, bytes) and dflt is not None:
            return v == (dflt.encode("utf-8") if isinstance(dflt, str) else dflt)
        return v == dflt
    except Exception:  # noqa
        return False


def check_views(s, ix, record, counters):
    from whoosh import sorting
    from whoosim.session import defaults_for
    mi = s.model
    docs = mi.docs
    defaults = dict((f, v[1]) for f, v in defaults_for(mi.schema).items() if v[0] == "ok")
    by_uid = dict((d.uid, d) for d in docs)
    where = "final state"
    with ix.searcher() as srch:
        reader = srch.reader()

        def run(q, **kw):
            try:
                return srch.search(q, **kw)
            except (SimAbort, SimKilled, HarnessError):
                raise
            except Exception as e:  # noqa
                raise Violation("search_raised", "%s: search(%r, %s) raised %s: %s" % (where, q, sorted(kw), type(e).__name__, e),
                                sig="search_raised:%s:%s" % ("+".join(sorted(kw)), exc_sig(e)))

        def pairs(res):
            return [(h["u"], h.docnum) for h in res]
        have_so = "so" in mi.field_names
        have_sp = "sp" in mi.field_names
        have_n = "n" in mi.field_names
        have_kw = "kw" in mi.field_names
        for spec in record["queries"]:
            q = Q.build(spec, mi.schema)
            try:
                exp = Q.evaluate(spec, docs, mi.schema)
                Q.evaluate(record["queries"][(record["queries"].index(spec) + 1) % len(record["queries"])], docs, mi.schema)
            except Q.Ambiguous:
                continue
            desc = Q.show(spec)
            full = run(q, limit=None)
            ranking = pairs(full)
            if set(u for u, _ in ranking) != exp:
                raise Violation("matched_set", "%s: %s returned uids %s, model %s" % (where, desc, sorted(u for u, _ in ranking), sorted(exp)),
                                sig="matched_set")
            if len(exp) >= 2:
                counters["multi"] += 1
            # ---- sorting
            sortspecs = [[("k", False)], [("k", True)]]
            if have_so:
                sortspecs += [[("so", False)], [("so", True)]]
            if have_sp:
                sortspecs += [[("sp", False)], [("sp", True)]]
            if have_n:
                sortspecs += [[("n", False)], [("n", True)]]
            if have_so and have_n:
                sortspecs += [[("so", False), ("n", True)], [("n", False), ("so", True)]]
            if have_sp:
                sortspecs += [[("sp", True), ("k", False)]]
            for keys in sortspecs:
                counters["evals"] += 1
                if len(keys) == 1:
                    # per-key direction (a facet's own reverse flag); search(reverse=True)
                    # reverses the whole list, ties included, and is not judged for ties
                    res = run(q, limit=None, sortedby=sorting.FieldFacet(keys[0][0], reverse=keys[0][1]))
                else:
                    mf = sorting.MultiFacet()
                    for f, rev in keys:
                        mf.add_field(f, reverse=rev)
                    res = run(q, limit=None, sortedby=mf)
                got = pairs(res)
                sdesc = "%s sorted by %s" % (desc, keys)
                if sorted(u for u, _ in got) != sorted(exp):
                    raise Violation("sorted_is_permutation", "%s: %s returned uids %s, the matched documents are %s"
                                    % (where, sdesc, sorted(u for u, _ in got), sorted(exp)), sig="sorted_set:" + "+".join(f for f, _ in keys))
                n = check_sorted(where, sdesc, got, keys, by_uid, mi.schema)
                counters["sorted_with_values"] += n
                if len(res) != len(exp):
                    raise Violation("len_results_exact", "%s: %s: len(results)=%d, matches %d" % (where, sdesc, len(res), len(exp)), sig="len_results:sorted")
                # a limited sorted search is the prefix
                lim = pairs(run(q, limit=3, sortedby=sorting.FieldFacet(keys[0][0], reverse=keys[0][1]))) if len(keys) == 1 else None
                if lim is not None and lim != got[:3]:
                    raise Violation("sorted_limit_is_prefix", "%s: %s with limit=3 returned %s, the full sorted result starts %s"
                                    % (where, sdesc, lim, got[:3]), sig="sorted_limit:" + keys[0][0])
                if len(keys) == 1:
                    f, rev = keys[0]
                    # documents without a value for the key sort as one block at one end of the result
                    # (wherever that is), whatever segment they live in; documents whose value equals
                    # the column default may mingle with them
                    dflt = defaults.get(f, _NODEFAULT)
                    kinds = []
                    for u, _ in got:
                        v = sort_value(by_uid[u], f, mi.schema)
                        if v is None:
                            kinds.append("N")
                        elif dflt is not _NODEFAULT and model_eq_default(v, dflt):
                            continue
                        else:
                            kinds.append("V")
                    squeezed = [k_ for i, k_ in enumerate(kinds) if i == 0 or kinds[i - 1] != k_]
                    if len(squeezed) > 2:
                        raise Violation("sorted_order_exact", "%s: %s: documents without a value are scattered through the result (N = no value, V = value): %s"
                                        % (where, sdesc, "".join(kinds)), sig="sorted_missing_values_scattered:" + f + ("-" if rev else ""))
                    if not rev:
                        # search-level reverse=True: the tie rule is its own, but a limited search is
                        # still the prefix of the unlimited one and pages still tile it
                        fullr = pairs(run(q, limit=None, sortedby=f, reverse=True))
                        limr = pairs(run(q, limit=3, sortedby=f, reverse=True))
                        if limr != fullr[:3]:
                            raise Violation("sorted_limit_is_prefix", "%s: %s sorted by %s, reverse=True, limit=3 returned %s, the unlimited result starts %s"
                                            % (where, desc, f, limr, fullr[:3]), sig="sorted_limit_reverse:" + f)
                        try:
                            p2 = [(h["u"], h.docnum) for h in srch.search_page(q, 2, pagelen=2, sortedby=f, reverse=True)] if len(fullr) > 2 else None
                        except (SimAbort, SimKilled, HarnessError):
                            raise
                        except Exception as e:  # noqa
                            raise Violation("search_raised", "%s: search_page(%s, 2, pagelen=2, sortedby=%s, reverse=True) raised %s: %s" % (where, desc, f, type(e).__name__, e),
                                            sig="search_page_raised:" + exc_sig(e))
                        if p2 is not None and p2 != fullr[2:4]:
                            raise Violation("page_is_slice", "%s: %s sorted by %s, reverse=True: page 2 of 2 is %s, the slice of the full result is %s"
                                            % (where, desc, f, p2, fullr[2:4]), sig="page_slice_reverse:" + f)
            # ---- grouping
            gfields = [f for f, ok in (("so", have_so), ("sp", have_sp), ("n", have_n), ("k", True)) if ok]
            for f in gfields:
                counters["evals"] += 1
                res = run(q, limit=None, groupedby=f)
                groups = res.groups(f)
                model_groups = {}
                for u in exp:
                    v = sort_value(by_uid[u], f, mi.schema)
                    if v is not None:
                        model_groups.setdefault(v if f == "n" else v.decode("utf-8"), set()).add(u)
                got_groups = {}
                seen_docs = []
                for key, dns in groups.items():
                    uids = set(reader.stored_fields(dn)["u"] for dn in dns)
                    seen_docs.extend(dns)
                    if key in model_groups or any(sort_value(by_uid[u], f, mi.schema) is not None for u in uids):
                        got_groups[key] = uids
                # documents with a value must be partitioned exactly
                gg = dict((k_, set(u for u in us if sort_value(by_uid[u], f, mi.schema) is not None)) for k_, us in got_groups.items())
                gg = dict((k_, v_) for k_, v_ in gg.items() if v_)
                if gg != model_groups:
                    raise Violation("groups_partition_exactly", "%s: %s grouped by %s: groups %s, the matched documents partition as %s"
                                    % (where, desc, f, dict((k_, sorted(v_)) for k_, v_ in gg.items()), dict((k_, sorted(v_)) for k_, v_ in model_groups.items())),
                                    sig="groups:" + f)
                if len(seen_docs) != len(set(seen_docs)) or set(reader.stored_fields(dn)["u"] for dn in seen_docs) != exp:
                    raise Violation("groups_partition_exactly", "%s: %s grouped by %s: the groups hold documents %s (matched %s)"
                                    % (where, desc, f, sorted(seen_docs), sorted(exp)), sig="groups_cover:" + f)
                # the other group containers are views of the same partition: a count, an unordered
                # set, and the best (= first in result order) document of each group
                for mname, mtype in (("Count", sorting.Count), ("UnorderedList", sorting.UnorderedList), ("Best", sorting.Best)):
                    counters["evals"] += 1
                    alt = run(q, limit=None, groupedby=sorting.FieldFacet(f, maptype=mtype)).groups(f)
                    for key, dns in groups.items():
                        a = alt.get(key)
                        ok = (a == len(dns) if mname == "Count" else
                              (a is not None and sorted(a) == sorted(dns)) if mname == "UnorderedList" else
                              a == dns[0])
                        if not ok:
                            raise Violation("groups_partition_exactly", "%s: %s grouped by %s: maptype=%s gives %r for key %r, the ordered groups say %s"
                                            % (where, desc, f, mname, a, key, list(dns)[:8]), sig="groups_maptype:%s" % mname)
                    if set(alt.keys()) != set(groups.keys()):
                        raise Violation("groups_partition_exactly", "%s: %s grouped by %s: maptype=%s has keys %s, the ordered groups %s"
                                        % (where, desc, f, mname, sorted(alt.keys(), key=repr)[:8], sorted(groups.keys(), key=repr)[:8]), sig="groups_maptype:%s" % mname)
            if have_kw:
                counters["evals"] += 1
                res = run(q, limit=None, groupedby=sorting.FieldFacet("kw", allow_overlap=True))
                groups = res.groups("kw")
                model_groups = {}
                for u in exp:
                    for tb in by_uid[u].postings.get("kw", {}):
                        model_groups.setdefault(tb.decode("utf-8"), set()).add(u)
                gg = {}
                for key, dns in groups.items():
                    if key is None:
                        continue
                    gg[key] = set(reader.stored_fields(dn)["u"] for dn in dns)
                if gg != model_groups:
                    raise Violation("groups_partition_exactly", "%s: %s grouped by overlapping kw: groups %s, model %s"
                                    % (where, desc, dict((k_, sorted(v_)) for k_, v_ in gg.items()), dict((k_, sorted(v_)) for k_, v_ in model_groups.items())),
                                    sig="groups:kw_overlap")
            # ---- collapse
            for f in [x for x in ("so", "n") if x in mi.field_names]:
                for climit in (1, 2):
                    counters["evals"] += 1
                    res = run(q, limit=None, collapse=f, collapse_limit=climit)
                    got = pairs(res)
                    kept = {}
                    expect = []
                    removed = {}
                    for u, dn in ranking:
                        v = sort_value(by_uid[u], f, mi.schema)
                        if v is None:
                            expect.append(u)   # "documents with an empty key are never eliminated"
                            continue
                        if kept.get(v, 0) < climit:
                            kept[v] = kept.get(v, 0) + 1
                            expect.append(u)
                        else:
                            removed[v] = removed.get(v, 0) + 1
                    gotv = [u for u, _ in got if sort_value(by_uid[u], f, mi.schema) is not None]
                    expv = [u for u in expect if sort_value(by_uid[u], f, mi.schema) is not None]
                    if gotv != expv:
                        raise Violation("collapse_keeps_best_n", "%s: %s collapse=%s limit=%d kept %s, the best %d per key of the ranking are %s"
                                        % (where, desc, f, climit, gotv, climit, expv), sig="collapse:" + f)
                    cc = dict((k_, v_) for k_, v_ in res.collapsed_counts.items() if v_)
                    ccm = dict(((k_ if f == "n" else k_.decode("utf-8")), v_) for k_, v_ in removed.items())
                    cc2 = dict((k_, v_) for k_, v_ in cc.items() if k_ in ccm or k_ not in (None, "", 2147483647))
                    if cc2 != ccm:
                        raise Violation("collapse_keeps_best_n", "%s: %s collapse=%s limit=%d collapsed_counts %s, expected %s"
                                        % (where, desc, f, climit, cc, ccm), sig="collapsed_counts:" + f)
            # ---- filter / mask
            fspec = record["queries"][(record["queries"].index(spec) + 1) % len(record["queries"])]
            fq = Q.build(fspec, mi.schema)
            fset = Q.evaluate(fspec, docs, mi.schema)
            fres = run(fq, limit=None)
            fdocs = set(fres.docs())
            for how, obj in (("query", fq), ("results", fres), ("idset", fdocs)):
                counters["evals"] += 1
                fr = run(q, limit=None, filter=obj)
                got = [(h["u"], h.score) for h in fr]
                want = [(h["u"], h.score) for h in full if h["u"] in fset]
                if fr.filtered_count != len(full) - len(want):
                    raise Violation("filter_is_intersection", "%s: %s filter(%s)=%s: filtered_count=%s, the filter removes %d of the %d matches"
                                    % (where, desc, how, Q.show(fspec), fr.filtered_count, len(full) - len(want), len(full)), sig="filtered_count:filter")
                if [u for u, _ in got] != [u for u, _ in want] or any(abs(a[1] - b[1]) > 1e-9 for a, b in zip(got, want)):
                    raise Violation("filter_is_intersection", "%s: %s filter(%s)=%s returned %s, the unfiltered ranking restricted to the filter is %s"
                                    % (where, desc, how, Q.show(fspec), got[:8], want[:8]), sig="filter:" + how)
                mr = run(q, limit=None, mask=obj)
                got = [(h["u"], h.score) for h in mr]
                want = [(h["u"], h.score) for h in full if h["u"] not in fset]
                if mr.filtered_count != len(full) - len(want):
                    raise Violation("mask_is_difference", "%s: %s mask(%s)=%s: filtered_count=%s, the mask removes %d of the %d matches"
                                    % (where, desc, how, Q.show(fspec), mr.filtered_count, len(full) - len(want), len(full)), sig="filtered_count:mask")
                if [u for u, _ in got] != [u for u, _ in want] or any(abs(a[1] - b[1]) > 1e-9 for a, b in zip(got, want)):
                    raise Violation("mask_is_difference", "%s: %s mask(%s)=%s returned %s, the unmasked ranking minus the mask is %s"
                                    % (where, desc, how, Q.show(fspec), got[:8], want[:8]), sig="mask:" + how)
            # ---- filter and mask together; the caller's filter/mask objects are the caller's: a search
            # must leave them as they were (they are used again for the next request)
            mspec = record["queries"][(record["queries"].index(spec) + 2) % len(record["queries"])]
            mq = Q.build(mspec, mi.schema)
            mset = Q.evaluate(mspec, docs, mi.schema)
            mres = run(mq, limit=None)
            mdocs = set(mres.docs())
            for how, fobj, mobj in (("query", fq, mq), ("results", fres, mres), ("idset", fdocs, mdocs)):
                counters["evals"] += 1
                before = (set(fres.docs()), set(fdocs), [h["u"] for h in fres], set(mres.docs()), set(mdocs))
                both = run(q, limit=None, filter=fobj, mask=mobj)
                got = [h["u"] for h in both]
                want = [h["u"] for h in full if h["u"] in fset and h["u"] not in mset]
                if got != want:
                    raise Violation("filter_is_intersection", "%s: %s filter(%s)=%s mask=%s returned %s, the ranking restricted to filter minus mask is %s"
                                    % (where, desc, how, Q.show(fspec), Q.show(mspec), got[:8], want[:8]), sig="filter_and_mask:" + how)
                after = (set(fres.docs()), set(fdocs), [h["u"] for h in fres], set(mres.docs()), set(mdocs))
                if after != before:
                    raise Violation("filter_is_intersection", "%s: %s: a search with filter and mask given as %s changed the caller's filter/mask objects (filter had %d documents, now %d)"
                                    % (where, desc, how, len(before[0]), len(after[0])), sig="filter_object_modified:" + how)
                again = [h["u"] for h in run(q, limit=None, filter=fobj)]
                want2 = [h["u"] for h in full if h["u"] in fset]
                if again != want2:
                    raise Violation("filter_is_intersection", "%s: %s filter(%s) used again after a filter+mask search returned %s, expected %s"
                                    % (where, desc, how, again[:8], want2[:8]), sig="filter_reuse:" + how)
            # ---- a limited collapsed search is the head of the unlimited collapsed search
            for f in [x for x in ("so", "n") if x in mi.field_names]:
                counters["evals"] += 1
                allc = pairs(run(q, limit=None, collapse=f, collapse_limit=1))
                for k in (2, 4, 7):
                    limc = pairs(run(q, limit=k, collapse=f, collapse_limit=1))
                    if limc != allc[:k]:
                        raise Violation("collapse_keeps_best_n", "%s: %s collapse=%s limit=%d returned %s, the unlimited collapsed result starts %s"
                                        % (where, desc, f, k, limc, allc[:k]), sig="collapse_limit_prefix:" + f)
            # ---- paging
            for pagelen in (1, 2, 3, 10):
                total = len(ranking)
                pagecount = max(1, -(-total // pagelen)) if total else 0
                for pagenum in (1, 2, pagecount):
                    if pagenum < 1:
                        continue
                    counters["evals"] += 1
                    try:
                        page = srch.search_page(q, pagenum, pagelen=pagelen)
                    except (SimAbort, SimKilled, HarnessError):
                        raise
                    except ValueError:
                        continue
                    except Exception as e:  # noqa
                        raise Violation("search_raised", "%s: search_page(%s, %d, pagelen=%d) raised %s: %s" % (where, desc, pagenum, pagelen, type(e).__name__, e),
                                        sig="search_page_raised:" + exc_sig(e))
                    eff = min(pagenum, pagecount) if pagecount else 1
                    off = (eff - 1) * pagelen
                    want = [u for u, _ in ranking[off:off + pagelen]]
                    got = [h["u"] for h in page]
                    if got != want or page.total != total or page.offset != off or page.pagecount != pagecount \
                            or page.pagelen != len(want):
                        raise Violation("page_is_slice", "%s: search_page(%s, %d, pagelen=%d): hits %s offset %s pagelen %s pagecount %s total %s; expected hits %s offset %s pagelen %s pagecount %s total %s"
                                        % (where, desc, pagenum, pagelen, got, page.offset, page.pagelen, page.pagecount, page.total, want, off, len(want), pagecount, total),
                                        sig="page")
            for k in (1, 2, 5):
                res = run(q, limit=k)
                if len(res) != len(ranking):
                    raise Violation("len_results_exact", "%s: %s limit=%d: len(results)=%d, matches %d" % (where, desc, k, len(res), len(ranking)), sig="len_results:limit")


def make_hooks(s, record):
    counters = {"evals": 0, "multi": 0, "sorted_with_values": 0}

    def after_commit(actor, probe_only=False):
        s.count("probes")

    def finish(actor):
        if actor.ix is not None:
            check_views(s, actor.ix, record, counters)
            r = actor.ix.reader()
            try:
                s.stats["segments"] = len(list(r.leaf_readers()))
                s.stats["with_deletions"] = 1 if r.has_deletions() else 0
                miss = 0
                for f in ("so", "n"):
                    if f in s.model.field_names:
                        for lr, _ in r.leaf_readers():
                            if not lr.has_column(f):
                                miss += 1
                s.stats["segments_lacking_a_column"] = miss
            finally:
                r.close()
        s.stats["view_evaluations"] = counters["evals"]
        s.stats["queries_with_2plus_matches"] = counters["multi"]
        s.stats["sorted_results_with_values"] = counters["sorted_with_values"]
    return {"after_commit": after_commit, "finish": finish}


def execute(record, trace=False):
    res = _hist.execute_hist(record, make_hooks, trace=trace)
    if res["verdict"] == "ok":
        st = res["stats"]
        res["nontrivial"] = bool(res["nontrivial"] and st.get("queries_with_2plus_matches", 0) > 0
                                 and (st.get("segments", 0) >= 2 or st.get("with_deletions")))
        if res.get("sample"):
            res["sample"]["queries"] = [Q.show(q) for q in record["queries"]]
            res["sample"]["late_fields"] = record.get("late_fields")
    return res


def shrink(record, fails, budget):
    cur = copy.deepcopy(record)
    for i in range(len(record["queries"])):
        t = copy.deepcopy(cur)
        t["queries"] = [record["queries"][i], record["queries"][(i + 1) % len(record["queries"])]]
        budget[0] -= 1
        if fails(t):
            cur = t
            break
    return _hist.shrink_hist(cur, fails, budget)


def extra_coverage(results):
    return {"evaluations": sum((r.get("stats") or {}).get("view_evaluations", 0) for r in results) or len(results),
            "runs": len(results)}
