"""C19 - fuzzy matching and spelling suggestions are exact with respect to edit distance."""

import copy
import random

from whoosim import engine
from whoosim.kernel import HarnessError, SimAbort, SimKilled
from whoosim.props import _hist
from whoosim.queries import damerau_levenshtein
from whoosim.session import Session, Violation, exc_sig
from whoosim.workload import RunConfig

ID = "C19"
LEVEL = "exploration"
REAL, STUBS = _hist.REAL, _hist.STUBS
RULE = ("per-run seed -> a lexicon of words of length 1-5 over a 2-3 letter alphabet (one run in four adds a multi-byte letter) "
        "spread over documents, committed once as ONE segment and once as SEVERAL segments on the simulated machine (the "
        "single-segment path walks a Levenshtein automaton over the term cursor, the multi-segment path filters "
        "expand_prefix by a distance function: two independent implementations selected by layout), optionally with "
        "deletions + 12 probes (word present / absent / one edit or transposition away / shorter than the prefix; d in "
        "0..3; prefix 0..2). terms_within must be the same set in both layouts, lie between the sets under the strictest and the most "
        "permissive documented reading of the distance, and among live terms equal the set under exactly one reading; FuzzyTerm must match exactly the documents containing such terms; suggest must "
        "return existing terms within the distance, never the queried word, ordered by distance then frequency. "
        "Non-trivial = both layouts built and >=1 probe with a non-empty expected set; distinct = SHA-256 over both event logs."
        ' 40% of runs draw from all lazy terms_within() iterators in turn (overlapping expansions).')
ASSUMPTIONS = ["documented distance = Damerau-Levenshtein (optimal string alignment), as the terms_within docstring states",
               "exhaustive enumeration over all word pairs is an input-space technique and is not attempted; the simulator contributes the layout dimension (history), pairs are sampled from the run's lexicon",
               "suggest() ties (same distance, same frequency) may come in any order"]
TIERS = {"quick": {"runs": 800, "time_budget": 100, "audit_every": 40},
         "thorough": {"runs": 30000, "time_budget": 1500, "audit_every": 100}}


def rand_word(rng, alpha, lo=1, hi=5):
    return u"".join(rng.choice(alpha) for _ in range(rng.randint(lo, hi)))


def mutate(rng, w, alpha):
    c = rng.randrange(4)
    if c == 0 and len(w) > 1:
        i = rng.randrange(len(w) - 1)
        return w[:i] + w[i + 1] + w[i] + w[i + 2:]     # transposition
    if c == 1 and w:
        i = rng.randrange(len(w))
        return w[:i] + w[i + 1:]                         # deletion
    if c == 2:
        i = rng.randrange(len(w) + 1)
        return w[:i] + rng.choice(alpha) + w[i:]         # insertion
    if w:
        i = rng.randrange(len(w))
        return w[:i] + rng.choice(alpha) + w[i + 1:]     # substitution
    return rng.choice(alpha)


def generate(seed, tier):
    rng = random.Random("%s/workload" % seed)
    alpha = rng.choice((u"ab", u"abc", u"abc", u"ab\xe9"))
    nwords = rng.randint(4, 25)
    lex = sorted(set(rand_word(rng, alpha) for _ in range(nwords)))
    docs = []
    for i in range(rng.randint(3, 12)):
        docs.append([rng.choice(lex) for _ in range(rng.randint(1, 4))])
    # make sure every word occurs
    for w in lex:
        if not any(w in d for d in docs):
            rng.choice(docs).append(w)
    cuts = sorted(rng.sample(range(1, len(docs)), min(len(docs) - 1, rng.randint(1, 3))))
    deletes = []
    if rng.random() < 0.3:
        deletes = sorted(rng.sample(range(len(docs)), rng.randint(1, max(1, len(docs) // 4))))
    probes = []
    for _ in range(12):
        c = rng.random()
        if c < 0.35:
            w = rng.choice(lex)
        elif c < 0.8:
            w = mutate(rng, rng.choice(lex), alpha)
            if rng.random() < 0.3:
                w = mutate(rng, w, alpha)
        else:
            w = rand_word(rng, alpha, 0, 5)
        probes.append([w, rng.choice((0, 1, 1, 2, 2, 3)), rng.choice((0, 0, 1, 2))])
    crng = random.Random("%s/config" % seed)
    from whoosim import seams
    seams.load_whoosh()
    cfg = RunConfig(crng, allow=[], force={"long_text_p": 0.0})
    return {"prop": ID, "seed": seed, "config": cfg.describe(), "docs": docs, "cuts": cuts,
            "deletes": deletes, "probes": probes,
            "overlap": random.Random("%s/overlap" % seed).random() < 0.4}


def build(s, record, cuts):
    from whoosh import fields
    schema = fields.Schema(k=fields.ID(stored=True, unique=True), u=fields.STORED(),
                           w=fields.KEYWORD(stored=True, scorable=True))
    st = s.storage().create()
    st.create_index(schema)
    ix = st.open_index()
    bounds = [0] + list(cuts) + [len(record["docs"])]
    for a, b in zip(bounds, bounds[1:]):
        if a == b:
            continue
        w = ix.writer(**s.cfg.writer_kwargs())
        for i in range(a, b):
            w.add_document(k=u"k%03d" % i, u=i, w=u" ".join(record["docs"][i]))
        w.commit(merge=False)
        s.count("commits")
    if record.get("deletes"):
        w = ix.writer(**s.cfg.writer_kwargs())
        for i in record["deletes"]:
            w.delete_by_term("k", u"k%03d" % i)
        w.commit(merge=False)
        s.count("commits")
    return ix


def indel_transpose(a, b):
    """Distance with insertions, deletions and adjacent transpositions only
    (a substitution costs 2): the reading of docs/source/parsing.rst."""
    la, lb = len(a), len(b)
    d = [[0] * (lb + 1) for _ in range(la + 1)]
    for i in range(la + 1):
        d[i][0] = i
    for j in range(lb + 1):
        d[0][j] = j
    for i in range(1, la + 1):
        for j in range(1, lb + 1):
            v = min(d[i - 1][j] + 1, d[i][j - 1] + 1)
            if a[i - 1] == b[j - 1]:
                v = min(v, d[i - 1][j - 1])
            if i > 1 and j > 1 and a[i - 1] == b[j - 2] and a[i - 2] == b[j - 1]:
                v = min(v, d[i - 2][j - 2] + 1)
            d[i][j] = v
    return d[la][lb]


def expected_terms(lexicon, word, d, p, reading="upper"):
    """The documentation gives three readings of "edit distance" (terms_within
    docstring: Damerau-Levenshtein; parsing.rst: insert/delete/transpose; the
    suite and the automaton: plain Levenshtein). 'upper' = within d under the
    most permissive one (Damerau-Levenshtein, which contains the other two);
    'lower' = within d under all three. A correct answer lies in between."""
    out = set()
    for t in lexicon:
        # (a prefix longer than the word can only mean the word itself)
        if not t.startswith(word[:p]):
            continue
        dl = damerau_levenshtein(word, t, d)
        if reading == "upper":
            if dl <= d:
                out.add(t)
        else:
            if dl <= d and _lev(word, t) <= d and indel_transpose(word, t) <= d:
                out.add(t)
    return out


def probe(s, ix, record, layout):
    """Returns observations {probe index: (terms_within set, fuzzy uids, suggestions)}."""
    from whoosh import query
    live = [i for i in range(len(record["docs"])) if i not in set(record.get("deletes") or [])]
    out = {}
    with ix.searcher() as srch:
        r = srch.reader()
        lazy = {}
        if record.get("overlap"):
            # terms_within() returns a lazy iterator: a caller may hold several at once and draw from
            # them in turn (merging the expansions of two words, say). Each must still yield its own answer.
            try:
                its = [(pi, iter(r.terms_within("w", word, d, prefix=p))) for pi, (word, d, p) in enumerate(record["probes"])]
                for pi, _ in its:
                    lazy[pi] = set()
                while its:
                    nxt = []
                    for pi, it in its:
                        try:
                            lazy[pi].add(next(it))
                            nxt.append((pi, it))
                        except StopIteration:
                            pass
                    its = nxt
            except (SimAbort, SimKilled, HarnessError):
                raise
            except Exception as e:  # noqa
                raise Violation("terms_within_raised", "%s: interleaved terms_within iterators raised %s: %s" % (layout, type(e).__name__, e),
                                sig="terms_within_raised:" + exc_sig(e))
            s.count("overlapping_expansions")
        for pi, (word, d, p) in enumerate(record["probes"]):
            s.count("probes")
            try:
                tw = lazy[pi] if pi in lazy else set(r.terms_within("w", word, d, prefix=p))
            except (SimAbort, SimKilled, HarnessError):
                raise
            except Exception as e:  # noqa
                raise Violation("terms_within_raised", "%s: terms_within(w, %r, %d, prefix=%d) raised %s: %s" % (layout, word, d, p, type(e).__name__, e),
                                sig="terms_within_raised:" + exc_sig(e))
            try:
                fz = sorted(h["u"] for h in srch.search(query.FuzzyTerm("w", word, maxdist=d, prefixlength=p), limit=None))
            except (SimAbort, SimKilled, HarnessError):
                raise
            except Exception as e:  # noqa
                raise Violation("fuzzy_raised", "%s: FuzzyTerm(w, %r, maxdist=%d, prefixlength=%d) raised %s: %s" % (layout, word, d, p, type(e).__name__, e),
                                sig="fuzzy_raised:" + exc_sig(e))
            try:
                sg = list(srch.suggest("w", word, limit=50, maxdist=d, prefix=p)) if d > 0 else None
            except (SimAbort, SimKilled, HarnessError):
                raise
            except Exception as e:  # noqa
                raise Violation("suggest_raised", "%s: suggest(w, %r, maxdist=%d, prefix=%d) raised %s: %s" % (layout, word, d, p, type(e).__name__, e),
                                sig="suggest_raised:" + exc_sig(e))
            out[pi] = (tw, fz, sg)
    return out


def check(s, record, obs, layout, lexicon_all, counters):
    docs = record["docs"]
    dels = set(record.get("deletes") or [])
    live = [i for i in range(len(docs)) if i not in dels]
    # the field's terms: the lexicon of live AND deleted documents is still listed until a merge,
    # so terms_within is judged against the terms the reader itself lists
    freq = {}
    for i in live:
        for w in docs[i]:
            freq[w] = freq.get(w, 0) + 1   # occurrences (reader.frequency), not documents
    for pi, (word, d, p) in enumerate(record["probes"]):
        tw, fz, sg = obs[pi]
        exp_all = expected_terms(lexicon_all, word, d, p, "upper")
        exp_must = expected_terms(set(freq), word, d, p, "lower")
        if exp_all:
            counters["nonempty"] += 1
        # (terms of deleted-only documents may or may not still be listed)
        if not (exp_must <= tw <= exp_all):
            extra = sorted(tw - exp_all)
            missing = sorted(exp_must - tw)
            raise Violation("terms_within_exact", "%s: terms_within(w, %r, %d, prefix=%d) = %s; every reading of the documented distance requires %s and allows at most %s (missing %s, extra %s)"
                            % (layout, word, d, p, sorted(tw), sorted(exp_must), sorted(exp_all), missing, extra),
                            sig="terms_within:%s" % ("missing" if missing else "extra"))
        # ... and, among the terms of live documents, it is *exactly* the set under one of the
        # documented readings: a path may implement any of them, but not a mixture (e.g. Damerau
        # that forgets transpositions at the start of the word)
        live_terms = set(freq)
        cand = [t for t in live_terms if t.startswith(word[:p])]
        readings = (("damerau-levenshtein", lambda t: damerau_levenshtein(word, t, d)),
                    ("levenshtein", lambda t: _lev(word, t)),
                    ("insert/delete/transpose", lambda t: indel_transpose(word, t)))
        mine = tw & live_terms
        if not any(mine == set(t for t in cand if dist(t) <= d) for _, dist in readings):
            raise Violation("terms_within_exact", "%s: terms_within(w, %r, %d, prefix=%d) restricted to live terms = %s equals the set under none of the documented distances: %s"
                            % (layout, word, d, p, sorted(mine), dict((n, sorted(t for t in cand if dist(t) <= d)) for n, dist in readings)),
                            sig="terms_within:no_consistent_reading")
        # FuzzyTerm matches exactly the documents containing such terms (same two bounds)
        lo_docs = set(i for i in live if any(t in exp_must for t in docs[i]))
        hi_docs = set(i for i in live if any(t in exp_all for t in docs[i]))
        if not (lo_docs <= set(fz) <= hi_docs) or len(fz) != len(set(fz)):
            raise Violation("fuzzy_matches_exact", "%s: FuzzyTerm(w, %r, maxdist=%d, prefixlength=%d) matched uids %s; documents that must match under every reading: %s, that may match: %s"
                            % (layout, word, d, p, fz, sorted(lo_docs), sorted(hi_docs)), sig="fuzzy_docs")
        if sg is not None:
            if word in sg:
                s.soft(Violation("suggest_never_the_word", "%s: suggest(w, %r, maxdist=%d, prefix=%d) returned the queried word itself: %s" % (layout, word, d, p, sg),
                                 sig="suggest:returns_word"))
            bad = [t for t in sg if t not in exp_all]
            if bad:
                raise Violation("suggest_within_distance", "%s: suggest(w, %r, maxdist=%d, prefix=%d) returned %s which are not terms within the distance" % (layout, word, d, p, bad),
                                sig="suggest:not_within")
            want = exp_must - set([word])
            if not want <= set(sg):
                raise Violation("suggest_within_distance", "%s: suggest(w, %r, maxdist=%d, prefix=%d, limit=50) = %s misses %s" % (layout, word, d, p, sg, sorted(want - set(sg))),
                                sig="suggest:missing")
            rest = [t for t in sg if t in freq and t != word]
            # ordered by closeness, then frequency, under at least one reading of the distance
            # (with deletions term frequencies are physical until a merge: not judged then)
            ok = bool(dels)
            for dist in (lambda t: damerau_levenshtein(word, t, 10), lambda t: _lev(word, t), lambda t: indel_transpose(word, t)):
                keys = [(dist(t), -freq.get(t, 0)) for t in rest]
                if keys == sorted(keys):
                    ok = True
                    break
            if not ok:
                v = Violation("suggest_ordered", "%s: suggest(w, %r, maxdist=%d, prefix=%d) = %s is not ordered by (distance, descending frequency): (term, Levenshtein distance, frequency) = %s"
                              % (layout, word, d, p, sg, [(t, _lev(word, t), freq.get(t, 0)) for t in rest]), sig="suggest:order")
                fkeys = [-freq.get(t, 0) for t in rest]
                if fkeys == sorted(fkeys):
                    v.sig = "suggest:order_by_frequency_only"
                    s.soft(v)
                else:
                    raise v


def _lev(a, b):
    from whoosim.queries import levenshtein
    return levenshtein(a, b)


def execute(record, trace=False):
    import hashlib
    from whoosim.session import cfg_from_record
    h = hashlib.sha256()
    agg = {}
    counters = {"nonempty": 0}
    lexicon_all = set(w for d in record["docs"] for w in d)
    obs_by_layout = {}
    khits = {}
    for layout, cuts in (("single segment", []), ("multi segment", record["cuts"])):
        cfg = cfg_from_record(record["config"])
        s = Session(record["seed"], cfg=cfg, keep_log=trace)
        try:
            try:
                ix = build(s, record, cuts)
                r = ix.reader()
                nseg = len(list(r.leaf_readers()))
                r.close()
                agg["segments_" + layout.split()[0]] = agg.get("segments_" + layout.split()[0], 0) + nseg
                obs = probe(s, ix, record, layout)
                obs_by_layout[layout] = obs
                check(s, record, obs, layout, lexicon_all, counters)
            except Violation as v:
                st = s.full_stats()
                return engine.result_violation(v.clause, v.detail, sig=v.sig, stats=st, digest=s.k.event_digest())
            except (SimAbort, SimKilled) as e:
                return engine.result_harness("aborted: %s" % type(e).__name__)
            except HarnessError as e:
                return engine.result_harness("HarnessError: %s" % e)
            h.update(s.k.event_digest().encode())
            for k_, v_ in s.stats.items():
                agg[k_] = agg.get(k_, 0) + v_
            for sg, n in s.known_hits.items():
                khits[sg] = khits.get(sg, 0) + n
            agg["events"] = agg.get("events", 0) + s.k.seq
            agg["sim_seconds"] = agg.get("sim_seconds", 0) + (s.k.now_us - 1_700_000_000_000_000) / 1e6
        finally:
            s.close()
    a, b = obs_by_layout["single segment"], obs_by_layout["multi segment"]
    for pi, (word, d, p) in enumerate(record["probes"]):
        if not record.get("deletes") and a[pi][0] != b[pi][0]:
            diff = a[pi][0] ^ b[pi][0]
            only_transpositions = all(damerau_levenshtein(word, t, d) <= d and _lev(word, t) > d for t in diff)
            sig = "terms_within:layout:transposition" if only_transpositions else "terms_within:layout"
            detail = ("terms_within(w, %r, %d, prefix=%d): one segment %s, several segments %s"
                      % (word, d, p, sorted(a[pi][0]), sorted(b[pi][0])))
            known = set(k["signature"] for k in engine.load_known() if k.get("status") == "known")
            if sig in known:
                khits[sig] = khits.get(sig, 0) + 1
                continue
            return engine.result_violation("terms_within_layout_independent", detail, sig=sig, stats=agg, digest=h.hexdigest())
    agg["probes_with_expected_terms"] = counters["nonempty"]
    smp = {"seed": record["seed"], "lexicon": sorted(lexicon_all)[:20], "cuts": record["cuts"], "deletes": record.get("deletes"),
           "probes": record["probes"][:6]}
    res = engine.result_ok(stats=agg, digest=h.hexdigest(),
                           nontrivial=(counters["nonempty"] > 0 and agg.get("segments_multi", 0) >= 2), sample=smp)
    res["known_hits"] = khits
    return res


def shrink(record, fails, budget):
    cur = copy.deepcopy(record)
    for pr in record["probes"]:
        t = copy.deepcopy(cur)
        t["probes"] = [pr]
        budget[0] -= 1
        if fails(t):
            cur = t
            break
    if cur.get("deletes"):
        t = copy.deepcopy(cur)
        t["deletes"] = []
        budget[0] -= 1
        if fails(t):
            cur = t
    # drop documents (from the end, keeping cuts valid)
    i = len(cur["docs"]) - 1
    while i >= 0 and budget[0] > 0 and len(cur["docs"]) > 1:
        t = copy.deepcopy(cur)
        del t["docs"][i]
        t["cuts"] = sorted(set(c if c <= i else c - 1 for c in t["cuts"] if 0 < (c if c <= i else c - 1) < len(t["docs"])))
        t["deletes"] = sorted(set(x if x < i else x - 1 for x in t.get("deletes", []) if x != i))
        budget[0] -= 1
        if fails(t):
            cur = t
        i -= 1
    # drop words
    for di in range(len(cur["docs"])):
        wi = len(cur["docs"][di]) - 1
        while wi >= 0 and budget[0] > 0 and len(cur["docs"][di]) > 1:
            t = copy.deepcopy(cur)
            del t["docs"][di][wi]
            budget[0] -= 1
            if fails(t):
                cur = t
            wi -= 1
    return cur
