"""C07 - deletes, updates and cancel have exact, durable semantics."""

from whoosim import engine
from whoosim.props import _hist
from whoosim.session import Violation, compare_reader, exc_sig
from whoosim.kernel import SimAbort, SimKilled, HarnessError

ID = "C07"
LEVEL = "exploration"
REAL, STUBS = _hist.REAL, _hist.STUBS
RULE = ("per-run seed -> knobs + a history of 1-6 writer transactions (add/group/update/delete_by_term/"
        "delete_by_query/delete_document/add_field/remove_field ending in commit with a merge choice, cancel, "
        "exception in the with-block or a one-shot injected I/O error), with process restarts in between; executed on the "
        "simulated machine and on a dictionary model; after every commit and restart every read API named in the statement is probed "
        "(reader dump incl. column values, all_stored_fields, iter_docs, Every, sorted, facets, term searches, 4 generated boolean trees); "
        "with two unique fields the second key is independent of the first in half of those runs. A run is non-trivial if it performed >=1 commit and >=1 "
        "probe of the read APIs; distinct = distinct SHA-256 of the event log."
        ' 40% of runs also check a long-lived searcher refresh()ed after every commit.')
ASSUMPTIONS = ["analysis (field.index) is trusted: the model derives a document's terms from it",
               "crash model is not exercised here (see C02); faults are cancel / user exception / one-shot EIO or ENOSPC inside the with-block body",
               "delete_document(docnum) is driven through the writer's own reader to find the document number"]
TIERS = {"quick": {"runs": 1600, "time_budget": 100, "audit_every": 40},
         "thorough": {"runs": 60000, "time_budget": 1500, "audit_every": 100}}


def generate(seed, tier):
    import random
    r = random.Random("%s/mode" % seed)
    update_only = r.random() < 0.3
    two_keys = r.random() < 0.3
    # with two unique fields the second key is tied to the first in half of those runs
    # (then "one live document per key" is checkable) and independent in the other half
    k2_indep = 0.5 if (two_keys and r.random() < 0.5) else 0.0
    if k2_indep:
        update_only = False
    rec = _hist.generate_hist(
        ID, seed,
        gen_kwargs={"ntx": (2, 6), "update_only": update_only, "schema_changes": r.random() < 0.3,
                    "p_delete": r.choice((0.2, 0.35, 0.5)), "p_bad_add": 0.03},
        cfg_kwargs={"want": ["k2"] if two_keys else None},
        docgen_kwargs={"k2_independent_p": k2_indep},
        update_only=update_only)
    from whoosim.session import cfg_from_record
    from whoosim import queries as Q
    qr = random.Random("%s/queries" % seed)
    cfg = cfg_from_record(rec["config"])
    rec["queries"] = [Q.gen_shaped_query(qr, cfg) for _ in range(2)] + [Q.gen_query(qr, cfg, depth=2, simple=True) for _ in range(2)]
    rec["hold_searcher"] = random.Random("%s/hold" % seed).random() < 0.4
    return rec


def _uids(results):
    return [h["u"] for h in results]


def check_live_views(actor, where):
    """Every read API named in the statement shows exactly the model's live
    documents."""
    from whoosh import query
    s = actor.s
    mi = s.model
    docs = mi.docs
    live = sorted(d.uid for d in docs)
    s.count("probes")
    try:
        r = actor.ix.reader()
    except (SimAbort, SimKilled, HarnessError):
        raise
    except Exception as e:  # noqa
        raise Violation("reader_open_raised", "%s: %s" % (type(e).__name__, e), sig="reader_open_raised:" + exc_sig(e))
    try:
        # columns are what sorting and facets read: a deleted document's sort key must not
        # survive attached to a live document
        res = compare_reader(r, docs, mi.schema, mi.field_names, parts=("count", "docs", "terms", "columns"))
        if res:
            clause = {"count": "doc_count_exact", "docs": "live_documents_exact",
                      "terms": "postings_show_live_only", "columns": "deleted_invisible:sort_keys"}[res[0]]
            raise Violation(clause, "%s: %s" % (where, res[1]))
        dca = r.doc_count_all()
        if dca < len(live):
            raise Violation("doc_count_exact", "%s: doc_count_all()=%d < live %d" % (where, dca, len(live)))
        if actor.last_commit_kind == "optimize" and where == "after commit":
            if dca != len(live) or r.has_deletions():
                raise Violation("optimize_removes_deleted", "after optimize doc_count_all()=%d, live=%d, has_deletions=%s"
                                % (dca, len(live), r.has_deletions()))
        got = sorted(st.get("u") for st in r.all_stored_fields())
        if got != live:
            raise Violation("deleted_invisible:all_stored_fields", "%s: all_stored_fields uids %s, live %s" % (where, got[:12], live[:12]))
        got = sorted(st.get("u") for _, st in r.iter_docs())
        if got != live:
            raise Violation("deleted_invisible:iter_docs", "%s: iter_docs uids %s, live %s" % (where, got[:12], live[:12]))
    finally:
        r.close()
    rng = s.k.stream("probe")
    words = list(s.cfg.vocab)
    rng.shuffle(words)
    with actor.ix.searcher() as srch:
        _search_views(actor, srch, where, docs, mi, live, words)
    if getattr(actor, "hold_searcher", False):
        # "every read API": also a long-lived searcher that was used under earlier generations
        # and brought up to date with refresh(), as the documentation recommends
        held = getattr(actor, "held", None)
        if held is not None and getattr(actor, "held_ix", None) is not actor.ix:
            held = None     # the process that owned it is gone
        try:
            if held is None:
                held = actor.ix.searcher()
            else:
                held = held.refresh()
        except (SimAbort, SimKilled, HarnessError):
            raise
        except Exception as e:  # noqa
            raise Violation("search_raised", "%s: refresh() raised %s: %s" % (where, type(e).__name__, e), sig="refresh_raised:" + exc_sig(e))
        actor.held, actor.held_ix = held, actor.ix
        s.count("held_searcher_checks")
        res = compare_reader(held.reader(), docs, mi.schema, mi.field_names, parts=("count", "docs", "terms", "columns"))
        if res:
            raise Violation("deleted_invisible:refreshed_searcher", "%s (refreshed searcher): %s" % (where, res[1]), sig="refreshed_searcher:" + res[0])
        _search_views(actor, held, where + " (refreshed searcher)", docs, mi, live, words)


def _search_views(actor, srch, where, docs, mi, live, words):
    s = actor.s
    from whoosh import query
    from whoosim import queries as Q
    if True:
        # "searches of any kind": generated boolean trees (intersections, negations, unions)
        for spec in (getattr(actor, "probe_queries", None) or []):
            try:
                exp = sorted(Q.evaluate(spec, docs, mi.schema))
            except Q.Ambiguous:
                continue
            try:
                got = sorted(h["u"] for h in srch.search(Q.build(spec, mi.schema), limit=None))
                got2 = sorted(srch.stored_fields(dn)["u"] for dn in srch.docs_for_query(Q.build(spec, mi.schema)))
            except (SimAbort, SimKilled, HarnessError):
                raise
            except Exception as e:  # noqa
                raise Violation("search_raised", "%s: %s raised %s: %s" % (where, Q.show(spec), type(e).__name__, e), sig="search_raised:" + exc_sig(e))
            if got != exp or got2 != exp:
                raise Violation("deleted_invisible:query", "%s: %s returned uids %s / docs_for_query %s, the live documents that match are %s"
                                % (where, Q.show(spec), got[:12], got2[:12], exp[:12]), sig="deleted_invisible:query")
        def run(q, **kw):
            try:
                return _uids(srch.search(q, limit=None, **kw))
            except (SimAbort, SimKilled, HarnessError):
                raise
            except Exception as e:  # noqa
                raise Violation("search_raised", "%s: search(%r, %r) raised %s: %s" % (where, q, kw, type(e).__name__, e),
                                sig="search_raised:" + exc_sig(e))
        got = sorted(run(query.Every()))
        if got != live:
            raise Violation("deleted_invisible:every", "%s: Every() returned uids %s, live %s" % (where, got[:12], live[:12]))
        if "k" in mi.field_names:
            got = run(query.Every(), sortedby="k")
            if sorted(got) != live:
                raise Violation("deleted_invisible:sorted", "%s: sorted search returned uids %s, live %s" % (where, sorted(got)[:12], live[:12]))
            res = srch.search(query.Every(), groupedby="k", limit=None)
            groups = res.groups("k")
            gdocs = sorted(srch.stored_fields(dn)["u"] for dns in groups.values() for dn in dns)
            if gdocs != live:
                raise Violation("deleted_invisible:facet", "%s: field facet groups hold uids %s, live %s" % (where, gdocs[:12], live[:12]))
        for w in words[:4]:
            exp = sorted(d.uid for d in docs if w.encode() in d.postings.get("t", {}))
            got = sorted(run(query.Term("t", w)))
            if got != exp:
                raise Violation("deleted_invisible:term", "%s: Term(t,%s) returned uids %s, expected %s" % (where, w, got[:12], exp[:12]))
            nexp = sorted(set(live) - set(exp))
            got = sorted(run(query.Not(query.Term("t", w))))
            if got != nexp:
                raise Violation("deleted_invisible:not", "%s: Not(Term(t,%s)) returned uids %s, expected %s" % (where, w, got[:12], nexp[:12]))
            got = sorted(srch.stored_fields(dn)["u"] for dn in srch.reader().postings("t", w).all_ids()) \
                if ("t", w) in srch.reader() else []
            if got != exp:
                raise Violation("deleted_invisible:postings", "%s: postings(t,%s) lists uids %s, expected %s" % (where, w, got[:12], exp[:12]))


def make_hooks(s, record):
    state = {"gen_before": None}

    def on_op(actor, i, op):
        actor.probe_queries = record.get("queries")
        actor.hold_searcher = bool(record.get("hold_searcher"))

    def one_per_key(actor):
        if record.get("update_only"):
            keys = {}
            for d in s.model.docs:
                keys[d.key] = keys.get(d.key, 0) + 1
            # (model invariant; the real index is compared with the model)
            with actor.ix.searcher() as srch:
                seen = {}
                for st in srch.reader().all_stored_fields():
                    seen[st["k"]] = seen.get(st["k"], 0) + 1
            bad = sorted(k for k, n in seen.items() if n != 1)
            if bad:
                raise Violation("one_live_doc_per_key", "keys with != 1 live document after update-only history: %s" % bad[:6])
            s.count("one_per_key_checks")

    def after_commit(actor, probe_only=False):
        gen = actor.ix.latest_generation()
        if gen != s.model.generation:
            raise Violation("generation_counts_commits", "latest_generation()=%s after %s commits" % (gen, s.model.generation))
        check_live_views(actor, "after commit")
        one_per_key(actor)

    def after_abort(actor, how):
        if actor.ix is None:
            return
        gen = actor.ix.latest_generation()
        if gen != s.model.generation:
            raise Violation("cancel_leaves_index_unchanged", "after %s latest_generation()=%s, expected %s" % (how, gen, s.model.generation))
        check_live_views(actor, "after " + how)
        # the next writer must open at once (lock released)
        from whoosh.index import LockError
        try:
            w = actor.ix.writer(timeout=0)
        except LockError:
            raise Violation("abort_releases_lock", "writer after %s got LockError" % how)
        w.cancel()


    def finish(actor):
        # durability: a brand-new process sees exactly the model from disk alone
        actor.ix = None
        s.new_process("final")
        if s.index_exists():
            actor.ensure_index()
            check_live_views(actor, "cold reopen")

    return {"after_commit": after_commit, "after_abort": after_abort, "on_op": on_op, "finish": finish}


def execute(record, trace=False):
    return _hist.execute_hist(record, make_hooks, trace=trace)


def shrink(record, fails, budget):
    return _hist.shrink_hist(record, fails, budget)
