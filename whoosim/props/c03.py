"""C03 - readers are snapshots; new readers and refresh() see exactly the last commit."""

import copy
import random

from whoosim import engine, util
from whoosim.kernel import HarnessError, SimAbort, SimKilled
from whoosim.props import _hist
from whoosim.sched import SchedSession, SchedWriter, SchedReader, dump_equals_model
from whoosim.session import Violation, cfg_from_record
from whoosim.workload import DocGen, RunConfig

ID = "C03"
LEVEL = "exploration"
REAL, STUBS = _hist.REAL, _hist.STUBS
RULE = ("per-run seed -> storage configuration (simulated FileStorage with mmap or without, compound or loose segment files, "
        "or one RamStorage shared by threads) + 1-2 writer actors (2-5 transactions each: adds, updates, deletes; commit with "
        "merge in {none, default, optimize, CLEAR, custom} or cancel) + 1-3 reader actors (open searcher, full read-back "
        "probe through the held searcher, up_to_date, refresh, close) as simulated threads or processes; every storage "
        "operation of every actor is a scheduling point and the seeded scheduler (uniform / sticky p in {0.5,0.9,0.99} / PCT priority "
        "schedules with 1-3 change points) decides who runs; 30% 'churn' runs (many tiny merging commits against readers that mostly "
        "re-open), 20% deletion-heavy runs (a big first segment losing documents commit after commit, no merging); readers may wait "
        "for the next commit to return; the cyclic GC fires at seeded step events. Every probe also searches through the searcher "
        "(sorted by a column-less field, scored, document numbers) and compares with a searcher freshly opened on the same "
        "generation. The recorded history (invoke/return stamped with the global event number, TOC rename and "
        "commit-return numbers per generation) is checked afterwards. Non-trivial = >=1 commit, >=1 probe and >=1 context "
        "switch; distinct = distinct event-log SHA-256; interleaving signature = hash of (from,to,event kind) at switches."
        ' Line-level pre-emption (sys.settrace line events of the library files shared between threads, p/n per n-th visit, budgeted) in 30% of runs; threads may share one Index object; 20% of runs contain an add_field commit and the searcher view includes schema names and Every(field) per field.')
ASSUMPTIONS = ["one searcher per simulated thread, as the documentation requires",
               "a reader opened over [a,b] may legitimately see any generation between the last commit that returned before a and the last TOC rename issued before b",
               "probes read every stored field, posting, length, vector and column through the held reader (this is what touches lazily opened files)"]
TIERS = {"quick": {"runs": 2400, "time_budget": 150, "audit_every": 60},
         "thorough": {"runs": 40000, "time_budget": 1500, "audit_every": 100}}


def generate(seed, tier):
    from whoosim import seams
    seams.load_whoosh()
    crng = random.Random("%s/config" % seed)
    wrng = random.Random("%s/workload" % seed)
    mrng = random.Random("%s/mode" % seed)
    want = [n for n in ("tv", "so", "n", "kw") if mrng.random() < 0.5]
    cfg = RunConfig(crng, want=want, force={"long_text_p": 0.0})
    # loose segment files are a recorded finding for held readers: keep the
    # configuration in the swarm, at a low weight
    cfg.compound = mrng.random() < 0.88
    dg = DocGen(cfg, wrng, nkeys=10)
    storage_kind = "ram" if mrng.random() < 0.25 else "file"
    nwriters = 1 if mrng.random() < 0.7 else 2
    nreaders = mrng.randint(1, 3)
    merges = ("none", "none", "default", "optimize", "optimize", "clear", "custom")
    # "churn" runs (30%): many tiny transactions that all replace segment files, against readers
    # that mostly (re)open - the window between reading a TOC and opening the files it names
    mode = mrng.random()
    churn = mode < 0.3
    # "dels" runs (20%): segments survive (no merging) and collect deletions commit after
    # commit, against readers that refresh and probe - recycled sub-readers must pick up every one
    dels = 0.3 <= mode < 0.5
    if dels:
        merges = ("none", "none", "none", "default")
    if churn:
        merges = ("optimize", "optimize", "clear", "custom", "default")
        nreaders = mrng.randint(2, 3)
    actors = []
    schema_run = False
    for wi in range(nwriters):
        txs = []
        for _ in range(mrng.randint(4, 8) if churn else mrng.randint(2, 5)):
            body = []
            for _ in range(wrng.randint(1, 2) if churn else wrng.randint(1, 4)):
                c = wrng.random()
                if dels and c < 0.75:
                    if c < 0.45:
                        body.append(["del_term", "k", u"k%03d" % wrng.randrange(dg.nkeys)])
                    else:
                        body.append(["update", dg.doc()])
                elif c < 0.6:
                    body.append(["add", dg.doc()])
                elif c < 0.8:
                    body.append(["update", dg.doc()])
                else:
                    body.append(["del_term", "k", u"k%03d" % wrng.randrange(dg.nkeys)])
            if dels and wi == 0 and not txs:
                # the first segment is big enough to lose documents commit after commit
                body = [["add", dg.doc()] for _ in range(wrng.randint(5, 10))]
            if wrng.random() < 0.1 and not (dels and not txs):
                end = ["cancel"]
            else:
                m = wrng.choice(merges)
                arg = {"merge": m}
                if m == "custom":
                    arg["mask"] = wrng.randrange(1, 256)
                end = ["commit", arg]
            txs.append({"timeout": 60.0, "delay": wrng.choice((0.0, 0.01, 0.05)) if churn else 0.05, "body": body, "end": end})
        # schema-changing commits (20% of the runs, first writer): a field is added in one of the later
        # transactions and the documents after it carry it - a refreshed searcher must see the new schema too
        srng = random.Random("%s/schema/%d" % (seed, wi))
        if wi == 0 and len(txs) >= 2 and srng.random() < 0.2:
            cand = [n for n in ("kw", "n", "so", "tv") if n not in cfg.fields]
            if cand:
                nm = srng.choice(cand)
                ti = srng.randrange(1, len(txs))
                txs[ti]["body"].insert(0, ["add_field", nm])
                schema_run = True
                if srng.random() < 0.7 and txs[ti]["end"][0] == "commit":
                    txs[ti]["end"] = ["commit", {"merge": "none"}]   # the old segments stay: their readers are recycled
                for tx in txs[ti:]:
                    for op in tx["body"]:
                        if op[0] in ("add", "update") and srng.random() < 0.7:
                            op[1][nm] = cfg.specs[nm].gen(srng, cfg.ctx())
        actors.append({"kind": "writer", "name": "W%d" % wi, "txs": txs,
                       "own_process": mrng.random() < 0.6})
    for ri in range(nreaders):
        ops = []
        for _ in range(mrng.randint(8, 16) if churn else mrng.randint(3, 10)):
            c = wrng.random()
            if churn and c < 0.75:
                ops.append([wrng.choice(("open", "open", "refresh", "probe", "close"))])
            elif dels and c < 0.85:
                ops.append([wrng.choice(("open", "refresh", "refresh", "probe", "probe", "utd", "await", "await"))])
            elif c < 0.1:
                ops.append(["await"])
            elif c < 0.2:
                ops.append(["open"])
            elif c < 0.55:
                ops.append(["probe"])
            elif c < 0.7:
                ops.append(["utd"])
            elif c < 0.85:
                ops.append(["refresh"])
            elif c < 0.92:
                ops.append(["close"])
            else:
                ops.append(["sleep", wrng.choice((0.01, 0.05, 0.3))])
        if dels:
            ops = [["await"]] + ops
        if schema_run:
            ops = ops + [["await"], ["refresh"], ["probe"]] * 3
        if ops[0][0] != "open":
            ops.insert(0, ["open"])
        if wrng.random() < 0.5:
            ops.insert(0, ["sleep", wrng.choice((0.01, 0.1, 0.5))])
        actors.append({"kind": "reader", "name": "R%d" % ri, "ops": ops,
                       "own_process": mrng.random() < 0.6})
    policy = mrng.choice((["uniform"], ["sticky", 0.5], ["sticky", 0.9], ["sticky", 0.99],
                          ["pct", mrng.randint(1, 3), mrng.choice((300, 1500, 4000))],
                          ["pct", mrng.randint(1, 3), mrng.choice((300, 1500, 4000))]))
    # line-level pre-emption (races between two statements with no storage call in between) and one
    # Index object shared by the threads of a process ("stateless, share-able between threads")
    lrng = random.Random("%s/lines" % seed)
    lines = [lrng.choice((0.02, 0.1, 0.3)), lrng.choice((3, 10, 30))] if lrng.random() < 0.3 else None
    share_ix = lrng.random() < 0.4
    return {"prop": ID, "seed": seed, "config": cfg.describe(), "storage_kind": storage_kind,
            "actors": actors, "policy": policy, "schedule": None,
            "gc_tick": mrng.choice((0, 0, 0.03, 0.1)), "lines": lines, "share_ix": share_ix}


def check_history(s, readers):
    ren_ev, ren_ap, ret = s.ren_ev, s.ren_applied, s.ret
    gens = sorted(s.model.history)

    def max_le(d, x, strict=False):
        best = 0
        for g, q in d.items():
            if (q < x if strict else q <= x) and g > best and g in s.model.history:
                best = g
        return best

    def model_of(g):
        docs, names = s.model.history[g]
        return docs, s.cfg.make_schema(names), names

    for rd in readers:
        obs = [o for o in s.history if o["actor"] == rd.name]
        sess = {}  # sid -> {"lo","hi","cands","reported","how"}
        for o in obs:
            sid = o["sid"]
            if o["kind"] == "open" or (o["kind"] == "refresh" and not o["same"]):
                lo = max_le(ret, o["a"], strict=True)
                hi = max_le(ren_ev, o["b"])
                how = "open" if o["kind"] == "open" else "refresh"
                sess[sid] = {"lo": lo, "hi": hi, "cands": None, "reported": o["gen"], "how": how, "o": o}
                if not (lo <= o["gen"] <= hi):
                    clause = "open_sees_admissible_generation" if how == "open" else "refresh_equals_fresh_open"
                    raise Violation(clause, "%s: %s over events [%d,%d] reports generation %s; last commit returned before the call: %d, last TOC rename issued before it ended: %d"
                                    % (rd.name, how, o["a"], o["b"], o["gen"], lo, hi), sig=clause + ":generation")
            elif o["kind"] == "refresh" and o["same"]:
                ss = sess.get(sid)
                lo = max_le(ret, o["a"], strict=True)
                if ss is not None and ss["reported"] < lo:
                    raise Violation("refresh_equals_fresh_open", "%s: refresh() over events [%d,%d] returned the same searcher (generation %s) although the commit of generation %d had returned before the call"
                                    % (rd.name, o["a"], o["b"], ss["reported"], lo), sig="refresh_equals_fresh_open:stale_self")
            elif o["kind"] == "probe_failed":
                sess.pop(sid, None)
            elif o["kind"] == "probe":
                ss = sess.get(sid)
                if ss is None:
                    continue
                first = ss["cands"] is None
                pool = range(ss["lo"], ss["hi"] + 1) if first else ss["cands"]
                cands = []
                msgs = {}
                for g in pool:
                    if g not in s.model.history:
                        continue
                    docs, schema, names = model_of(g)
                    msg = dump_equals_model(o["dump"], docs, schema, names, rd.parts)
                    if msg is None:
                        cands.append(g)
                    else:
                        msgs[g] = msg
                if not cands:
                    later = max_le(ren_ev, o["b"])
                    if not s.cfg.compound and later > (ss["reported"] or 0):
                        s.soft(Violation("held_reader_probe_equals_snapshot",
                                         "%s: probe through a searcher of generation %s over loose segment files after generation %d was committed differs: %s"
                                         % (rd.name, ss["reported"], later, list(msgs.values())[:1]),
                                         sig="held_reader:loose_segment_files_vanish"))
                        sess.pop(sid, None)
                        continue
                    if first:
                        clause = "open_sees_admissible_generation" if ss["how"] == "open" else "refresh_equals_fresh_open"
                        want = ss["reported"] if ss["reported"] in msgs else (sorted(msgs)[-1] if msgs else None)
                        raise Violation(clause, "%s: first probe after %s (events [%d,%d], reported generation %s, admissible %d..%d) equals no admissible generation; vs generation %s: %s"
                                        % (rd.name, ss["how"], ss["o"]["a"], ss["o"]["b"], ss["reported"], ss["lo"], ss["hi"], want, msgs.get(want)),
                                        sig=clause + ":content")
                    want = sorted(ss["cands"])[0]
                    raise Violation("held_reader_probe_equals_snapshot", "%s: probe at events [%d,%d] through a searcher held on generation %s no longer equals that generation: %s"
                                    % (rd.name, o["a"], o["b"], want, msgs.get(want)), sig="held_reader_probe_equals_snapshot:content")
                ss["cands"] = cands
            elif o["kind"] == "utd":
                ss = sess.get(sid)
                if ss is None:
                    continue
                lminus = max_le(ren_ap, o["a"])
                lplus = max_le(ren_ev, o["b"])
                if lminus == lplus:
                    expected = (ss["reported"] == lminus)
                    s.count("utd_exact_checked")
                    if o["value"] != expected:
                        raise Violation("up_to_date_exact", "%s: up_to_date() over events [%d,%d] returned %s for a searcher of generation %s while the latest generation was %d throughout"
                                        % (rd.name, o["a"], o["b"], o["value"], ss["reported"], lminus), sig="up_to_date_exact")


def execute(record, trace=False):
    cfg = cfg_from_record(record["config"])
    pol = record.get("policy") or ["sticky", 0.9]
    s = SchedSession(record["seed"], cfg=cfg, keep_log=trace, policy=tuple(pol),
                     replay_schedule=record.get("schedule"), storage_kind=record.get("storage_kind", "file"))
    s.k.gc_tick_p = record.get("gc_tick", 0)
    s.share_ix = bool(record.get("share_ix"))
    try:
        try:
            s.setup_index()
            if record.get("lines"):
                s.k.enable_lines(*record["lines"])
            writers, readers, actors = [], [], []
            for a in record["actors"]:
                if a["kind"] == "writer":
                    w = SchedWriter(s, a["name"], a["txs"], own_process=a.get("own_process", True))
                    writers.append(w)
                    actors.append(w)
                else:
                    r = SchedReader(s, a["name"], a["ops"], own_process=a.get("own_process", True))
                    readers.append(r)
                    actors.append(r)
            dl = s.run_actors(actors)
            st = s.full_stats()
            st.update(s.k.counters)
            st["events"] = s.k.seq
            st["switches"] = s.k.switches
            st["sim_seconds"] = (s.k.now_us - 1_700_000_000_000_000) / 1e6
            patch = {"schedule": list(s.k.schedule)}
            if dl is not None:
                res = engine.result_violation("no_deadlock", "deadlock: %s" % [(d["task"], d["waiting_for"]) for d in dl],
                                              sig="deadlock", stats=st, digest=s.k.event_digest(), isig=s.k.interleaving_sig())
                res["record_patch"] = patch
                return res
            v = None
            for a in actors:
                if a.violation is not None:
                    v = a.violation
                    break
            for t in s.k.tasks:
                if t.exc is not None and not isinstance(t.exc, (SimAbort, SimKilled)):
                    return engine.result_harness("task %s raised %s\n%s" % (t.name, t.exc, t.exc_tb))
            if v is None:
                try:
                    check_history(s, readers)
                except Violation as vv:
                    v = vv
            if v is not None:
                res = engine.result_violation(v.clause, v.detail, sig=v.sig, stats=st, digest=s.k.event_digest(),
                                              isig=s.k.interleaving_sig())
                res["record_patch"] = patch
                if trace:
                    res["log"] = s.k.log
                return res
            nontrivial = st.get("commits", 0) >= 1 and st.get("probes", 0) >= 1 and s.k.switches >= 1
            smp = {"seed": record["seed"], "storage": record.get("storage_kind"), "policy": pol,
                   "actors": [{"name": a["name"], "ops": [o[0] for o in a["ops"]]} if a["kind"] == "reader"
                              else {"name": a["name"], "txs": [[o[0] for o in t["body"]] + [t["end"][0] + (":" + t["end"][1]["merge"] if len(t["end"]) > 1 else "")] for t in a["txs"]]}
                              for a in record["actors"]],
                   "switches": s.k.switches, "generations": sorted(s.ren_ev)}
            res = engine.result_ok(stats=st, digest=s.k.event_digest(), nontrivial=nontrivial,
                                   isig=s.k.interleaving_sig(), sample=smp)
            res["known_hits"] = dict(s.known_hits)
            if trace:
                res["log"] = s.k.log
            return res
        except (SimAbort, SimKilled) as e:
            return engine.result_harness("run aborted: %s (%s) deadlock=%s" % (s.k.abort_reason, type(e).__name__, s.k.deadlock))
        except HarnessError as e:
            return engine.result_harness("HarnessError: %s" % e)
    finally:
        s.close()


def shrink(record, fails, budget):
    return shrink_sched(record, fails, budget)


def shrink_sched(record, fails, budget):
    """Drop actors, ops, transactions; then quieten the schedule."""
    cur = copy.deepcopy(record)
    # drop whole actors
    i = 0
    while i < len(cur["actors"]) and budget[0] > 0:
        if len(cur["actors"]) <= 1:
            break
        trial = copy.deepcopy(cur)
        del trial["actors"][i]
        trial["schedule"] = None if cur.get("schedule") is None else cur["schedule"]
        budget[0] -= 1
        if fails(trial):
            cur = trial
        else:
            i += 1
    # drop ops / transactions
    for ai in range(len(cur["actors"])):
        a = cur["actors"][ai]
        key = "ops" if a["kind"] == "reader" else "txs"

        def test(items, ai=ai, key=key):
            trial = copy.deepcopy(cur)
            trial["actors"][ai][key] = items
            return fails(trial)
        cur["actors"][ai][key] = engine.ddmin_list(a[key], test, budget)
        if key == "txs":
            for ti in range(len(cur["actors"][ai]["txs"])):
                def test2(items, ai=ai, ti=ti):
                    trial = copy.deepcopy(cur)
                    trial["actors"][ai]["txs"][ti]["body"] = items
                    return fails(trial)
                body = cur["actors"][ai]["txs"][ti]["body"]
                if len(body) > 1:
                    cur["actors"][ai]["txs"][ti]["body"] = engine.ddmin_list(body, test2, budget)
    # knobs
    for k_, v_ in _hist.DEFAULT_KNOBS.items():
        if budget[0] <= 0:
            break
        if cur["config"].get(k_) != v_:
            trial = copy.deepcopy(cur)
            trial["config"][k_] = v_
            budget[0] -= 1
            if fails(trial):
                cur = trial
    return cur
