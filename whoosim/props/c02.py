"""C02 - a commit is atomic with respect to process crashes.

Decider: crash-state enumeration. The history runs once on the simulated
machine; at every OS-visible event of every writer transaction the file
system is forked into post-crash variants (pending user-space bytes of the
writer's open files dropped / all applied / a PRNG-chosen prefix per file);
each distinct state is then recovered in a fresh simulated process and must
be exactly the old or the new generation, writable, and cleaned of orphans
by the next commit.  A second mode kills the writer process for real at a
chosen event while a survivor process holds the index open.
"""

import copy
import random
import re

from whoosim import engine, seams
from whoosim import model as M
from whoosim.hist import HistActor, HistStop
from whoosim.kernel import Kernel, SimAbort, SimKilled, HarnessError
from whoosim.props import _hist
from whoosim.session import (Session, Violation, cfg_from_record, compare_reader,
                             exc_sig, INDEX_DIR)
from whoosim.simos import SimOS, snapshot_digest

ID = "C02"
LEVEL = "fault_enumeration"
REAL, STUBS = _hist.REAL, _hist.STUBS
RULE = ("per-run seed -> knobs + a history of 1-4 writer transactions (adds, groups, updates, deletes, schema changes; "
        "commit with merge in {none, default, optimize, CLEAR, custom}, cancel, failing with-block; compound and loose "
        "segment files). Crash points = every OS-visible storage event (create, write-push, close, rename, unlink, "
        "mkdir/rmdir, listdir, stat, open, flock, mmap) from the moment ix.writer() is called until commit()/cancel() "
        "returned, x surviving prefixes of unflushed user-space buffers {none, all, one PRNG prefix per open file}. "
        "evaluations = crash states recovered (reopen + full dump + new writer + commit + orphan scan); a crash state is "
        "non-trivial when it lies strictly inside a transaction, distinct = distinct SHA-256 of (directory tree bytes, "
        "acceptable generations). 25% of the runs kill the process for real; 15% inject one EIO/ENOSPC (short write) / failing rename / "
        "failing unlink inside commit() and take the crash states of the error path, including the instant after commit() raised. Each run recovers a bounded sample of its captured states (quick <= 40, thorough <= 600, "
        "weighted 3:1 towards commit()/cancel()); runs with fewer captured states are recovered exhaustively."
        ' 15% of the runs are BufferedWriter lives under capture: every crash state must be the index after a whole number of calls at or after the last explicit commit.'
        ' In the disk-fault mode 35% of the faults sit in the clean-up after the TOC rename (unlink, rmdir), and the application may answer a failed commit() with cancel(): still exactly old or new.')
ASSUMPTIONS = ["crash model = kill -9 of the writing process: kernel-visible state survives in full, user-space buffers survive as a prefix no shorter than the last explicit flush; power-loss (no fsync) reordering is outside the property's crash model and not injected",
               "recovery runs in a fresh simulated process that shares nothing with the dead one but the file system",
               "TOC temp files (_MAIN_n.toc.<time>) and the MAIN.tmp directory are not 'segment files': their survival is recorded, not judged"]
TIERS = {"quick": {"runs": 144, "time_budget": 110, "audit_every": 30, "max_states": 40},
         "thorough": {"runs": 4000, "time_budget": 1700, "audit_every": 100, "max_states": 600}}

SEGFILE = re.compile(r"^MAIN_([0-9a-z]+)\.")
TOCFILE = re.compile(r"^_MAIN_([0-9]+)\.toc$")
TOCTEMP = re.compile(r"^_MAIN_([0-9]+)\.toc\.")


def generate(seed, tier):
    r = random.Random("%s/mode" % seed)
    schema_run = r.random() < 0.3
    force = {"long_text_p": 0.0}
    sr = random.Random("%s/schema_run" % seed)
    if schema_run and sr.random() < 0.5:
        force["compound"] = False     # loose segment files: every field's column is a file of its own
    rec = _hist.generate_hist(
        ID, seed,
        gen_kwargs={"ntx": (1, 4), "maxops": 5, "p_iofault": 0.0, "p_raise": 0.06, "p_cancel": 0.12,
                    "p_restart": 0.25, "schema_changes": schema_run, "p_schema": (0.2, 0.3),
                    "p_delete": r.choice((0.15, 0.3))},
        cfg_kwargs={"force": force, "want": (["so", "n"] if schema_run else None)})
    if r.random() < 0.15:
        # a prefix of tiny commits brings the generation counter to 7..10, so that the transactions
        # under test cross the 9 -> 10 boundary (file names, sort orders and parsers of "_MAIN_<n>.toc")
        from whoosim.session import cfg_from_record
        from whoosim.workload import DocGen
        pr = random.Random("%s/prefix" % seed)
        dg = DocGen(cfg_from_record(rec["config"]), pr, nkeys=12)
        dg.next_uid = 100000
        n = pr.randint(7, 10)
        prefix = []
        for i in range(n):
            prefix += [["writer", {}], ["add", dg.doc(fields_subset=[], sparse_p=0.0)],
                       ["commit", {"merge": pr.choice(("none", "none", "default"))}]]
        rec["ops"] = prefix + rec["ops"]
        rec["capture_from_tx"] = n
    x = r.random()
    # "ioerror": the disk fails once inside commit() (EIO, or ENOSPC with a short write) and the
    # process dies somewhere on the error path or right after commit() raised
    mode = "kill" if x < 0.25 else ("ioerror" if x < 0.45 else "enumerate")
    fr = random.Random("%s/front" % seed)
    if fr.random() < 0.15:
        # "anywhere in a writer's life", for the BufferedWriter front-end: a sequence of calls with
        # flushes wherever its limit puts them; every crash state must be the index after some
        # whole number of calls - never a call half applied (an update's delete without its add)
        from whoosim.session import cfg_from_record
        from whoosim.workload import DocGen
        mode = "buffered"
        dg = DocGen(cfg_from_record(rec["config"]), fr, nkeys=8)
        dg.next_uid = 300000
        calls = []
        for _ in range(fr.randint(3, 10)):
            c = fr.random()
            if c < 0.45:
                calls.append(["add", dg.doc()])
            elif c < 0.8:
                calls.append(["update", dg.doc()])
            elif c < 0.92:
                calls.append(["del_term", "k", u"k%03d" % fr.randrange(8)])
            else:
                calls.append(["bw_commit"])
        rec["bw"] = {"limit": fr.choice((1, 2, 2, 3, 4)), "calls": calls}
    rec["crash"] = {"mode": mode, "max_states": TIERS[tier]["max_states"],
                    "iofault": {"skip": r.randint(0, 60), "errno": r.choice(("EIO", "ENOSPC")),
                                "kinds": r.choice((["write"], ["write", "creat"], ["write", "creat", "rename"], ["rename"], ["unlink"])),
                                "short": r.random() < 0.5, "tx": r.randint(1, 4)},
                    "after_error": random.Random("%s/after_error" % seed).choice(("die", "cancel", "cancel")),
                    # 35% of the disk faults are placed in the clean-up that follows the TOC rename (the removal of
                    # superseded files and of the scratch directory): the commit is published and then raises
                    "post_publish": random.Random("%s/post_publish" % seed).random() < 0.35,
                    "post_kinds": random.Random("%s/post_kinds" % seed).choice((["rmdir"], ["rmdir"], ["unlink", "rmdir"])),
                    "kill_at": r.random(), "tear": r.choice(("none", "all", "mixed")),
                    "recover_merge": r.choice(("none", "default", "optimize"))}
    return rec


class Acceptable(object):
    def __init__(self, gen, docs, field_names, by_content=False, label=None):
        self.gen = gen
        self.docs = docs
        self.field_names = field_names
        self.by_content = by_content    # matched by what the index holds, whatever its generation number
        self.label = label


def recover_check(snap, acceptable, cfg, seed, merge, where, stats):
    """Reopen the crashed directory in a fresh simulated machine/process and
    apply the clauses of the property. Raises Violation."""
    k = Kernel("%s/recover" % seed)
    so = SimOS(k, bufsize=8192, hide_fileno=cfg.hide_fileno)
    so.load_snapshot(snap)
    k.bind_main(name="recovery")
    seams.install(k, so)
    from whoosim.session import apply_hashbits, restore_hashbits
    saved = apply_hashbits(cfg)
    try:
        _recover(so, acceptable, cfg, merge, where, stats)
    finally:
        restore_hashbits(saved)
        k.aborting = True
        seams.uninstall()


def _recover(so, acceptable, cfg, merge, where, stats, survivor_ix=None):
    from whoosh.filedb.filestore import FileStorage
    from whoosh.index import LockError
    try:
        if survivor_ix is not None:
            ix = survivor_ix
        else:
            ix = FileStorage(INDEX_DIR, supports_mmap=(getattr(cfg, "mmap", True) and not cfg.hide_fileno)).open_index()
        gen = ix.latest_generation()
    except (SimAbort, SimKilled, HarnessError):
        raise
    except Exception as e:  # noqa
        raise Violation("reopen_ok", "%s: open_dir raised %s: %s" % (where, type(e).__name__, e),
                        sig="reopen_ok:" + exc_sig(e))
    if acceptable and acceptable[0].by_content:
        return _recover_by_content(so, ix, gen, acceptable, cfg, merge, where, stats)
    cands = [a for a in acceptable if a.gen == gen]
    if not cands:
        raise Violation("old_or_new", "%s: reopened index is at generation %s, acceptable %s"
                        % (where, gen, [a.gen for a in acceptable]))
    a = cands[0]
    schema = cfg.make_schema(a.field_names)
    try:
        r = ix.reader()
    except (SimAbort, SimKilled, HarnessError):
        raise
    except Exception as e:  # noqa
        raise Violation("reopen_ok", "%s: reader() raised %s: %s" % (where, type(e).__name__, e),
                        sig="reopen_ok:reader:" + exc_sig(e))
    try:
        try:
            res = compare_reader(r, a.docs, schema, a.field_names)
        except Violation as v:
            raise Violation("reopen_ok", "%s: generation %d unreadable: %s" % (where, gen, v.detail),
                            sig="reopen_ok:" + v.sig)
    finally:
        r.close()
    if res:
        clause = "no_loss" if res[0] in ("docs", "count") else "old_or_new"
        raise Violation(clause, "%s: generation %d differs from the model of that generation: %s"
                        % (where, gen, res[1]), sig="%s:%s" % (clause, res[0]))
    which = "new" if (len(acceptable) > 1 and gen == max(x.gen for x in acceptable)) else "old"
    stats["recovered_as_" + which] = stats.get("recovered_as_" + which, 0) + 1
    _recover_tail(so, ix, gen, a, schema, cfg, merge, where, stats)


def _recover_tail(so, ix, gen, a, schema, cfg, merge, where, stats):
    from whoosh.index import LockError
    # writable_after
    try:
        w = ix.writer(timeout=0, **cfg.writer_kwargs())
    except LockError:
        raise Violation("writable_after", "%s: a new writer got LockError after the crash" % where)
    except (SimAbort, SimKilled, HarnessError):
        raise
    except Exception as e:  # noqa
        raise Violation("writable_after", "%s: ix.writer() raised %s: %s" % (where, type(e).__name__, e),
                        sig="writable_after:" + exc_sig(e))
    newdoc = {"k": u"kzzz", "u": 10 ** 6, "t": u"recovery document"}
    kw = {"none": {"merge": False}, "default": {}, "optimize": {"optimize": True}}[merge]
    try:
        w.add_document(**newdoc)
        w.commit(**kw)
    except (SimAbort, SimKilled, HarnessError):
        raise
    except Exception as e:  # noqa
        raise Violation("writable_after", "%s: commit after recovery raised %s: %s" % (where, type(e).__name__, e),
                        sig="writable_after:" + exc_sig(e))
    gen2 = ix.latest_generation()
    if gen2 != gen + 1:
        raise Violation("writable_after", "%s: generation after recovery commit is %s, expected %s" % (where, gen2, gen + 1))
    docs2 = list(a.docs) + [M.derive(schema, newdoc)]
    r = ix.reader()
    try:
        res = compare_reader(r, docs2, schema, a.field_names)
        segids = set(s.segment_id() for s in r.segments()) if r.segments() else set()
    finally:
        r.close()
    if res:
        raise Violation("writable_after", "%s: index after the recovery commit differs from model+1 document: %s"
                        % (where, res[1]), sig="writable_after:" + res[0])
    # orphans_removed
    names = so.listing(INDEX_DIR)
    orphans = []
    for n in names:
        m = SEGFILE.match(n)
        if m and ("MAIN_" + m.group(1)) not in segids:
            orphans.append(n)
        m = TOCFILE.match(n)
        if m and int(m.group(1)) != gen2:
            orphans.append(n)
        if TOCTEMP.match(n):
            stats["toc_temp_survived"] = stats.get("toc_temp_survived", 0) + 1
    if orphans:
        raise Violation("orphans_removed", "%s: after the next commit the directory still holds %s (live segments %s)"
                        % (where, sorted(orphans)[:6], sorted(segids)), sig="orphans_removed")


def _recover_by_content(so, ix, gen, acceptable, cfg, merge, where, stats):
    """Front-end transactions: the reopened index must equal the model after some whole number of
    calls (one of ``acceptable``); which one is decided by content."""
    match = None
    first_diff = None
    for a in reversed(acceptable):
        schema = cfg.make_schema(a.field_names)
        try:
            r = ix.reader()
        except (SimAbort, SimKilled, HarnessError):
            raise
        except Exception as e:  # noqa
            raise Violation("reopen_ok", "%s: reader() raised %s: %s" % (where, type(e).__name__, e),
                            sig="reopen_ok:reader:" + exc_sig(e))
        try:
            try:
                res = compare_reader(r, a.docs, schema, a.field_names)
            except Violation as v:
                raise Violation("reopen_ok", "%s: generation %d unreadable: %s" % (where, gen, v.detail),
                                sig="reopen_ok:" + v.sig)
        finally:
            r.close()
        if not res:
            match = a
            break
        if first_diff is None:
            first_diff = (a.label, res)
    if match is None:
        raise Violation("old_or_new", "%s: the reopened index (generation %s) equals the index after none of the %d admissible whole numbers of calls (%s..%s); against %s: %s"
                        % (where, gen, len(acceptable), acceptable[0].label, acceptable[-1].label, first_diff[0], first_diff[1][1]),
                        sig="old_or_new:call_boundary:" + first_diff[1][0])
    stats["recovered_at_call_boundary"] = stats.get("recovered_at_call_boundary", 0) + 1
    _recover_tail(so, ix, gen, match, cfg.make_schema(match.field_names), cfg, merge, where, stats)


def execute(record, trace=False):
    mode = record["crash"]["mode"]
    if mode == "kill":
        return execute_kill(record, trace)
    return execute_enum(record, trace)


def _acc(session, gen):
    docs, names = session.model.history[gen]
    return Acceptable(gen, docs, names)


def execute_enum(record, trace=False):
    cfg = cfg_from_record(record["config"])
    crash = record["crash"]
    s = Session(record["seed"], cfg=cfg, keep_log=trace)
    captured = []  # (key, snap, acceptable, where, inside)
    seen = set()
    ctx = {"phase": None, "acc": None, "tx": 0}
    frng = random.Random("%s/faults" % record["seed"])
    only = crash.get("only")  # replay of a single state: [event_seq, variant]
    stats = {}
    try:
        def capture(where, inside=True):
            if ctx["phase"] is None:
                return
            proc = s.k.current.proc
            pend = s.os.pending(proc)
            variants = [("none", None)]
            if pend:
                variants.append(("all", dict((f.name, n) for f, n in pend)))
                if any(n > 1 for _, n in pend):
                    variants.append(("mixed", dict((f.name, frng.randint(0, n)) for f, n in pend)))
                stats["states_with_pending_buffers"] = stats.get("states_with_pending_buffers", 0) + 1
            for vname, tear in variants:
                if only is not None and (only[0] != s.k.seq or only[1] != vname):
                    continue
                snap = s.os.snapshot(proc, tear)
                acc = ctx["acc"]
                key = (snapshot_digest(snap, INDEX_DIR), tuple((a.gen, a.label) for a in acc))
                if key in seen:
                    stats["duplicate_states_skipped"] = stats.get("duplicate_states_skipped", 0) + 1
                    continue
                seen.add(key)
                captured.append((key, snap, acc, "tx %d, %s, crash before event #%d (%s), pending=%s"
                                 % (ctx["tx"], ctx["phase"], s.k.seq, where, vname),
                                 inside, s.k.seq, vname, ctx["phase"]))

        def hook(k, task, kind, detail):
            if kind == "step":
                return
            capture("%s %s" % (kind, detail))
            if kind == "rename" and ctx["phase"] == "commit" and TOCFILE.match(detail.split(">")[-1].rsplit("/", 1)[-1]):
                # from here to the return of commit() both TOCs may exist and the clean-up is
                # under way: the window where "old or new" is decided by what recovery picks
                ctx["phase"] = "commit_post_rename"

        skip_tx = record.get("capture_from_tx", 0)
        if crash["mode"] == "buffered":
            skip_tx = 10 ** 9    # the plain history only builds the index the BufferedWriter starts from

        def on_op(actor, i, op):
            if op[0] == "writer" and actor.w is None:
                ctx["tx"] += 1
                if ctx["tx"] <= skip_tx:
                    return
                ctx["phase"] = "body"
                ctx["acc"] = [_acc(s, s.model.generation)]

        def before_commit(actor, m):
            if ctx["tx"] <= skip_tx:
                return
            docs, names, _ = actor.mw.preview(clear=(m == "clear"))
            ctx["phase"] = "commit"
            ctx["acc"] = [_acc(s, s.model.generation), Acceptable(s.model.generation + 1, docs, names)]
            iof = crash.get("iofault")
            if crash["mode"] == "ioerror" and iof and not ctx.get("armed") and ctx["tx"] >= min(iof["tx"], ctx.get("ntx", 1)):
                ctx["armed"] = True
                import errno as _e
                st = {"skip": iof["skip"]}
                task = s.k.current

                post = bool(crash.get("post_publish"))
                if post:
                    st["skip"] = (st["skip"] % 4) if "unlink" in crash.get("post_kinds", ()) else 0

                def plan(kind, name):
                    if post:
                        if ctx["phase"] != "commit_post_rename" or kind not in crash.get("post_kinds", ("unlink", "rmdir")) or s.k.current is not task:
                            return None
                    elif kind not in iof["kinds"] or s.k.current is not task or "WRITELOCK" in name:
                        return None
                    if st["skip"] > 0:
                        st["skip"] -= 1
                        return None
                    s.os.fail_plan = None
                    ctx["fired"] = "%s on %s %s" % (iof["errno"], kind, name.rsplit("/", 1)[-1][:40])
                    stats["iofault_fired_" + kind] = stats.get("iofault_fired_" + kind, 0) + 1
                    e = OSError(getattr(_e, iof["errno"]), "injected %s" % iof["errno"], name)
                    e.injected = True
                    if kind == "write" and iof.get("short"):
                        e.short = frng.randint(1, 64)
                    ctx["phase"] = "commit_error_path"
                    return e
                s.os.fail_plan = plan

        def on_commit_error(actor, exc):
            if not ctx.get("fired"):
                return False
            # commit() raised after the injected fault: the process dies here at the latest
            s.os.fail_plan = None
            ctx["phase"] = "commit_failed"
            stats["commit_failed_by_iofault"] = stats.get("commit_failed_by_iofault", 0) + 1
            capture("commit() raised %s after %s" % (type(exc).__name__, ctx["fired"]))
            if crash.get("after_error") == "cancel" and actor.w is not None:
                # the application's usual handler: "except: writer.cancel()" - whatever the failed commit
                # had already published must stay readable, whatever it had not must stay invisible
                ctx["phase"] = "cancel_after_failed_commit"
                try:
                    actor.w.cancel()
                except (SimAbort, SimKilled, HarnessError):
                    raise
                except Exception:  # noqa
                    pass
                stats["cancel_after_failed_commit"] = stats.get("cancel_after_failed_commit", 0) + 1
                capture("cancel() after the failed commit() returned")
            return True

        def after_commit(actor, probe_only=False):
            if not probe_only:
                # a fault armed for this commit that did not fire must not linger into later transactions
                s.os.fail_plan = None
            if probe_only or ctx["tx"] <= skip_tx:
                return
            ctx["acc"] = [_acc(s, s.model.generation)]
            ctx["phase"] = "returned"
            capture("commit() returned", inside=False)
            ctx["phase"] = None

        def before_abort(actor, kind):
            if ctx["tx"] <= skip_tx:
                return
            ctx["phase"] = "cancel"

        def after_abort(actor, how):
            if ctx["tx"] <= skip_tx:
                return
            ctx["phase"] = "returned"
            capture("cancel returned", inside=False)
            ctx["phase"] = None

        s.k.event_hooks.append(hook)
        actor = HistActor(s, after_commit=after_commit, after_abort=after_abort, on_op=on_op,
                          before_commit=before_commit, before_abort=before_abort)
        actor.on_commit_error = on_commit_error
        ctx["ntx"] = sum(1 for op in record["ops"] if op[0] == "commit")
        try:
            actor.ensure_index()  # index creation is not a writer transaction
            actor.run(record["ops"])
            if crash["mode"] == "buffered":
                _buffered_phase(s, actor, record, ctx, capture)
        except HistStop:
            pass
        except Violation as v:
            return engine.result_violation("fault_free_run_failed", v.detail, sig="fault_free_run_failed:" + v.sig,
                                           digest=s.k.event_digest())
        except (SimAbort, SimKilled) as e:
            return engine.result_harness("run aborted: %s" % s.k.abort_reason)
        digest = s.k.event_digest()
        run_log = s.k.log
        events = s.k.seq
        sim_seconds = (s.k.now_us - 1_700_000_000_000_000) / 1e6
        run_stats = s.full_stats()
    finally:
        s.close()
    # choose which states to recover
    total = len(captured)
    mx = crash.get("max_states", 40)
    if total > mx:
        srng = random.Random("%s/sample" % record["seed"])
        weights = [(200.0 if c[7] in ("commit_failed", "cancel_after_failed_commit") else 30.0 if c[7] == "commit_error_path" else 12.0 if c[7] == "commit_post_rename"
                    else 3.0 if c[7] in ("commit", "cancel") else 1.0)
                   for c in captured]
        chosen = set()
        idx = list(range(total))
        while len(chosen) < mx:
            chosen.add(srng.choices(idx, weights)[0])
        todo = [captured[i] for i in sorted(chosen)]
    else:
        todo = captured
    st = {"crash_states_captured": total, "crash_states_recovered": 0, "events": events,
          "sim_seconds": sim_seconds}
    st.update(stats)
    for k_, v_ in run_stats.items():
        st[k_] = v_
    keys = []
    import gc
    gc.disable()
    try:
        for key, snap, acc, where, inside, seq, vname, phase in todo:
            engine.heartbeat()
            st["crash_states_recovered"] += 1
            st["phase_" + phase] = st.get("phase_" + phase, 0) + 1
            st["variant_" + vname] = st.get("variant_" + vname, 0) + 1
            if inside:
                keys.append(key[0])
            try:
                recover_check(snap, acc, cfg, record["seed"], crash.get("recover_merge", "none"), where, st)
            except Violation as v:
                res = engine.result_violation(v.clause, v.detail, sig=v.sig, stats=st, digest=digest)
                res["crash_point"] = [seq, vname]
                res["state_keys"] = keys
                return res
            except (SimAbort, SimKilled) as e:
                return engine.result_harness("recovery aborted (%s) at %s" % (type(e).__name__, where))
    finally:
        if seams._installed[0] is not None:
            seams.uninstall()
        gc.enable()
        gc.collect()
    res = engine.result_ok(stats=st, digest=digest, nontrivial=bool(keys),
                           sample=_sample(record, todo))
    res["state_keys"] = keys
    if trace:
        res["log"] = run_log
    return res


def _buffered_phase(s, actor, record, ctx, capture):
    """A BufferedWriter's life under crash-state capture: construction, calls (with the flushes its
    limit causes), explicit commits, close()."""
    from whoosh.writing import BufferedWriter
    bwc = record["bw"]
    mi = s.model
    ix = actor.ensure_index()
    names = list(mi.field_names)
    states = [Acceptable(None, list(mi.docs), names, by_content=True, label="0 calls")]
    lb = 0

    def guard(fn, what):
        try:
            return fn()
        except (SimAbort, SimKilled, HarnessError, Violation):
            raise
        except Exception as e:  # noqa
            raise Violation("frontend_raised", "BufferedWriter.%s raised %s: %s" % (what, type(e).__name__, e), sig="buffered:%s:%s" % (what, exc_sig(e)))
    ctx["tx"] += 1
    ctx["phase"] = "bw_open"
    ctx["acc"] = [states[0]]
    bw = guard(lambda: BufferedWriter(ix, period=None, limit=bwc["limit"], writerargs=dict(s.cfg.writer_kwargs())), "__init__")
    def filt(d):
        # the plain history may have removed fields the generated documents still carry
        out = {}
        for k_, v_ in d.items():
            base = k_[1:].replace("stored_", "", 1).replace("_boost", "") if k_.startswith("_") else k_
            if k_ == "_boost" or base in names:
                out[k_] = v_
        return out
    for call in bwc["calls"]:
        if call[0] in ("add", "update"):
            call = [call[0], filt(call[1])]
        elif call[0] == "del_term" and call[1] not in names:
            continue
        s.k.event("step", "bw." + call[0])
        if call[0] != "bw_commit":
            mw = mi.writer()
            if call[0] == "add":
                mw.add(call[1])
            elif call[0] == "update":
                mw.update(call[1])
            else:
                mw.delete_by_term(call[1], call[2])
            mw.commit()
            states.append(Acceptable(None, list(mi.docs), names, by_content=True, label="%d calls" % len(states)))
        ctx["phase"] = "bw_" + call[0]
        ctx["acc"] = states[lb:]    # the call in flight may or may not have reached the disk
        if call[0] == "add":
            guard(lambda: bw.add_document(**call[1]), "add_document")
        elif call[0] == "update":
            guard(lambda: bw.update_document(**call[1]), "update_document")
        elif call[0] == "del_term":
            guard(lambda: bw.delete_by_term(call[1], call[2]), "delete_by_term")
        else:
            guard(lambda: bw.commit(), "commit")
            lb = len(states) - 1     # an explicit commit() returned: everything so far is durable
        ctx["acc"] = states[lb:]
        s.count("bw_calls")
    ctx["phase"] = "bw_close"
    ctx["acc"] = states[lb:]
    guard(lambda: bw.close(), "close")
    ctx["acc"] = [states[-1]]
    ctx["phase"] = "returned"
    capture("close() returned", inside=False)
    ctx["phase"] = None
    s.count("bw_lives")


def _sample(record, todo):
    smp = _hist.sample_of(record)
    smp["crash_states (first 6 of %d)" % len(todo)] = [t[3] for t in todo[:6]]
    return smp


def execute_kill(record, trace=False):
    """The writer runs as its own simulated process and is killed for real at
    a chosen event; a survivor process that opened the index before the
    crash then applies the recovery clauses on the live file system."""
    cfg = cfg_from_record(record["config"])
    crash = record["crash"]
    total = crash.get("inside_events")
    if total is None:
        # dry run in a separate session to learn the number of events
        dry = copy.deepcopy(record)
        total = _count_inside_events(dry)
    s = Session(record["seed"], cfg=cfg, keep_log=trace)
    st = {}
    try:
        # pass 1: count the events of the fault-free history (same seed => same run)
        ctx = {"phase": None, "acc": None, "tx": 0, "inside_events": 0, "kill_at": None,
               "killed": None}
        frng = random.Random("%s/faults" % record["seed"])
        wproc = s.k.new_proc("writer")

        def hook(k, task, kind, detail):
            if kind == "step" or ctx["phase"] is None or task.proc is not wproc:
                return
            ctx["inside_events"] += 1
            if ctx["kill_at"] is not None and ctx["inside_events"] == ctx["kill_at"]:
                pend = s.os.pending(wproc)
                mode = crash.get("tear", "none")
                tear = {}
                if mode == "all":
                    tear = dict((f.name, n) for f, n in pend)
                elif mode == "mixed":
                    tear = dict((f.name, frng.randint(0, n)) for f, n in pend)
                ctx["killed"] = "tx %d, %s, killed before event #%d (%s %s), pending=%s" % (
                    ctx["tx"], ctx["phase"], k.seq, kind, detail, mode)
                ctx["killed_acc"] = ctx["acc"]
                s.os.kill(wproc, tear)
                k.reap_tasks_of(wproc)
                k.count("process_killed")
                raise SimKilled()

        skip_tx = record.get("capture_from_tx", 0)

        def on_op(actor, i, op):
            if op[0] == "writer" and actor.w is None:
                ctx["tx"] += 1
                if ctx["tx"] <= skip_tx:
                    return
                ctx["phase"] = "body"
                ctx["acc"] = [_acc(s, s.model.generation)]

        def before_commit(actor, m):
            if ctx["tx"] <= skip_tx:
                return
            docs, names, _ = actor.mw.preview(clear=(m == "clear"))
            ctx["phase"] = "commit"
            ctx["acc"] = [_acc(s, s.model.generation), Acceptable(s.model.generation + 1, docs, names)]
            iof = crash.get("iofault")
            if crash["mode"] == "ioerror" and iof and not ctx.get("armed") and ctx["tx"] >= min(iof["tx"], ctx.get("ntx", 1)):
                ctx["armed"] = True
                import errno as _e
                st = {"skip": iof["skip"]}
                task = s.k.current

                def plan(kind, name):
                    if kind not in iof["kinds"] or s.k.current is not task or "WRITELOCK" in name:
                        return None
                    if st["skip"] > 0:
                        st["skip"] -= 1
                        return None
                    s.os.fail_plan = None
                    ctx["fired"] = "%s on %s %s" % (iof["errno"], kind, name.rsplit("/", 1)[-1][:40])
                    stats["iofault_fired_" + kind] = stats.get("iofault_fired_" + kind, 0) + 1
                    e = OSError(getattr(_e, iof["errno"]), "injected %s" % iof["errno"], name)
                    e.injected = True
                    if kind == "write" and iof.get("short"):
                        e.short = frng.randint(1, 64)
                    ctx["phase"] = "commit_error_path"
                    return e
                s.os.fail_plan = plan

        def on_commit_error(actor, exc):
            if not ctx.get("fired"):
                return False
            # commit() raised after the injected fault: the process dies here at the latest
            s.os.fail_plan = None
            ctx["phase"] = "commit_failed"
            stats["commit_failed_by_iofault"] = stats.get("commit_failed_by_iofault", 0) + 1
            capture("commit() raised %s after %s" % (type(exc).__name__, ctx["fired"]))
            return True

        def after_commit(actor, probe_only=False):
            ctx["phase"] = None

        def before_abort(actor, kind):
            ctx["phase"] = "cancel"

        def after_abort(actor, how):
            ctx["phase"] = None

        if total <= 0:
            return engine.result_ok(stats={"no_transaction_events": 1}, digest=s.k.event_digest(), nontrivial=False)
        ctx["kill_at"] = crash.get("kill_event") or (1 + int(crash.get("kill_at", 0.5) * total) % total)
        s.k.event_hooks.append(hook)
        actor = HistActor(s, after_commit=after_commit, after_abort=after_abort, on_op=on_op,
                          before_commit=before_commit, before_abort=before_abort)
        # survivor (main task, its own process) creates the index and keeps it open
        survivor_ix = actor.ensure_index()
        actor.ix = None
        out = {}
        ops = [op for op in record["ops"] if op[0] != "restart"]

        def body():
            try:
                actor.run(ops)
            except Violation as v:
                out["violation"] = v

        t = s.k.spawn(body, "writer", proc=wproc)
        s.k.block_until(lambda: t.state == "done", desc="join writer")
        if "violation" in out:
            v = out["violation"]
            return engine.result_violation("fault_free_run_failed", v.detail, sig="fault_free_run_failed:" + v.sig,
                                           digest=s.k.event_digest())
        if ctx["killed"] is None:
            return engine.result_harness("kill point %s of %s never reached (saw %s, out=%s, tstate=%s exc=%r)" % (ctx["kill_at"], total, ctx["inside_events"], out, t.state, t.exc))
        st["killed_in_" + ctx["phase"]] = 1
        st["tear_" + crash.get("tear", "none")] = 1
        try:
            _recover(s.os, ctx["killed_acc"], cfg, crash.get("recover_merge", "none"), ctx["killed"], st,
                     survivor_ix=survivor_ix)
        except Violation as v:
            stt = dict(st)
            stt.update(s.k.counters)
            return engine.result_violation(v.clause, v.detail, sig=v.sig, stats=stt, digest=s.k.event_digest())
        st.update(s.k.counters)
        st["events"] = s.k.seq
        st["crash_states_recovered"] = 1
        st["sim_seconds"] = (s.k.now_us - 1_700_000_000_000_000) / 1e6
        smp = _hist.sample_of(record)
        smp["kill"] = ctx["killed"]
        res = engine.result_ok(stats=st, digest=s.k.event_digest(), nontrivial=True, sample=smp)
        res["state_keys"] = ["kill:" + s.k.event_digest()]
        return res
    except (SimAbort, SimKilled) as e:
        return engine.result_harness("run aborted: %s %s" % (s.k.abort_reason, s.k.deadlock))
    finally:
        s.close()


def _count_inside_events(record):
    cfg = cfg_from_record(record["config"])
    s = Session(record["seed"], cfg=cfg)
    ctx = {"phase": None, "n": 0, "tx": 0}
    skip_tx = record.get("capture_from_tx", 0)
    try:
        wproc = s.k.new_proc("writer")

        def hook(k, task, kind, detail):
            if kind != "step" and ctx["phase"] is not None and task.proc is wproc:
                ctx["n"] += 1

        def on_op(actor, i, op):
            if op[0] == "writer" and actor.w is None:
                ctx["tx"] += 1
                if ctx["tx"] > skip_tx:
                    ctx["phase"] = "body"

        def end(*a, **k):
            ctx["phase"] = None

        s.k.event_hooks.append(hook)
        actor = HistActor(s, after_commit=end, after_abort=end, on_op=on_op)
        survivor_ix = actor.ensure_index()
        actor.ix = None
        out = {}
        ops = [op for op in record["ops"] if op[0] != "restart"]

        def body():
            try:
                actor.run(ops)
            except Violation as v:
                out["v"] = v
        t = s.k.spawn(body, "writer", proc=wproc)
        s.k.block_until(lambda: t.state == "done", desc="join writer")
        return ctx["n"]
    finally:
        s.close()


def shrink(record, fails, budget):
    budget[0] = min(budget[0], 40)
    rec = copy.deepcopy(record)
    rec["crash"].pop("only", None)
    rec["crash"].pop("inside_events", None)
    return _hist.shrink_hist(rec, fails, budget)


def extra_coverage(results):
    keys = set()
    for r in results:
        for k in r.get("state_keys") or []:
            keys.add(k)
    return {"distinct_nontrivial": len(keys),
            "distinct_crash_states": len(keys),
            "evaluations": sum((r.get("stats") or {}).get("crash_states_recovered", 0) for r in results) or len(results),
            "runs": len(results)}
