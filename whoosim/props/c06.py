"""C06 - segment layout is invisible: merge and optimize preserve all logical content."""

import copy
import random

from whoosim import engine
from whoosim import model as M
from whoosim.hist import HistActor
from whoosim.kernel import HarnessError, SimAbort, SimKilled
from whoosim.props import _hist
from whoosim.session import Session, Violation, cfg_from_record, compare_reader, exc_sig
from whoosim.workload import DocGen, RunConfig

ID = "C06"
LEVEL = "exploration"
REAL, STUBS = _hist.REAL, _hist.STUBS
RULE = ("per-run seed -> one document-level operation sequence organised in rounds (deletes and updates of keys written in "
        "earlier rounds, then adds/groups; every key touched at most once per round) executed under 2-4 layout schedules: "
        "different partitions of the same operations into commits, a merge choice per commit {none, default, optimize, "
        "custom subset}, different codec block sizes / sort-pool limits / packing per layout, plus the baseline (one commit "
        "per round, optimised at the end); a quarter of the runs add a 'staircase' layout (one transaction per operation, never "
        "merging, then default-policy commits: many equal-sized segments); the schema may hold a dynamic (glob) field. Every layout's full logical dump after every commit must equal the model; "
        "group members must stay adjacent and in order; optimize must physically drop deleted documents and removed "
        "fields; without deletions collection statistics must not depend on the layout. Non-trivial = >=2 layouts, each "
        "with >=1 commit; distinct = distinct SHA-256 over the layouts' event logs."
        ' 20% of runs end every layout with remove_field + ix.optimize(): the removed field must be physically gone.'
        ' 30% of runs add a layout driven through a BufferedWriter (flush timer thread + limit).')
ASSUMPTIONS = ["document order between separately added documents is not part of the logical content (merges may permute segments); order inside a group is",
               "the key discipline of C07 is applied so that the operation sequence has the same meaning under every partition into commits",
               "analysis is trusted for deriving expected postings"]
TIERS = {"quick": {"runs": 500, "time_budget": 100, "audit_every": 40},
         "thorough": {"runs": 20000, "time_budget": 1500, "audit_every": 100}}


def gen_rounds(rng, cfg, dg, nrounds, deletes):
    rounds = []
    written = []  # keys written in earlier rounds
    vocab = cfg.vocab
    for r in range(nrounds):
        touched = set()
        dels, ups, adds = [], [], []
        if deletes and written:
            for _ in range(rng.randint(0, 3)):
                c = rng.random()
                if c < 0.6:
                    key = rng.choice(written)
                    if key in touched:
                        continue
                    touched.add(key)
                    dels.append(["del_term", "k", u"k%03d" % key])
                else:
                    dels.append(["del_term", "t", rng.choice(vocab)])
            for _ in range(rng.randint(0, 2)):
                key = rng.choice(written)
                if key in touched:
                    continue
                touched.add(key)
                ups.append(["update", dg.doc(key=key)])
        for _ in range(rng.randint(1, 6)):
            key = rng.randrange(dg.nkeys)
            if key in touched:
                continue
            touched.add(key)
            if rng.random() < 0.2:
                docs = [dg.doc(key=key)]
                for _ in range(rng.randint(1, 3)):
                    k2 = rng.randrange(dg.nkeys)
                    if k2 in touched:
                        continue
                    touched.add(k2)
                    docs.append(dg.doc(key=k2))
                adds.append(["group", docs])
            else:
                adds.append(["add", dg.doc(key=key)])
        written.extend(touched)
        rounds.append(dels + ups + adds)
    return rounds


def layout_ops(rng, rounds, baseline=False, merges=("none", "none", "default", "optimize", "custom")):
    ops = []
    for ri, rnd in enumerate(rounds):
        ops.append(["writer", {}])
        for i, op in enumerate(rnd):
            ops.append(op)
            if not baseline and i < len(rnd) - 1 and rng.random() < 0.3:
                m = rng.choice(merges)
                arg = {"merge": m}
                if m == "custom":
                    arg["mask"] = rng.randrange(1, 256)
                ops.append(["commit", arg])
                if rng.random() < 0.2:
                    ops.append(["restart"])
                ops.append(["writer", {}])
        if baseline:
            ops.append(["commit", {"merge": "optimize" if ri == len(rounds) - 1 else "none"}])
        else:
            m = rng.choice(merges)
            arg = {"merge": m}
            if m == "custom":
                arg["mask"] = rng.randrange(1, 256)
            ops.append(["commit", arg])
    return ops


def staircase_ops(rng, rounds):
    """One transaction per operation, never merging, then default-policy commits: many segments
    of equal size, which is where the small-segment merge policy has to break ties."""
    ops = []
    flat = [op for rnd in rounds for op in rnd]
    for i, op in enumerate(flat):
        ops.append(["writer", {}])
        ops.append(op)
        last = i == len(flat) - 1
        ops.append(["commit", {"merge": "default" if (last or (i >= 5 and rng.random() < 0.25)) else "none"}])
    return ops


def generate(seed, tier):
    from whoosim import seams
    seams.load_whoosh()
    crng = random.Random("%s/config" % seed)
    wrng = random.Random("%s/workload" % seed)
    mrng = random.Random("%s/mode" % seed)
    want = [n for n in ("tc", "tv", "kw", "n", "so", "s", "b", "*_dyn") if mrng.random() < 0.4]
    cfg = RunConfig(crng, want=want)
    dg = DocGen(cfg, wrng, nkeys=16)
    deletes = mrng.random() < 0.6
    stairs = mrng.random() < 0.25
    rounds = gen_rounds(wrng, cfg, dg, mrng.randint(3, 5) if stairs else mrng.randint(1, 4), deletes)
    layouts = [{"ops": layout_ops(wrng, rounds, baseline=True), "knobs": {}}]
    if stairs:
        layouts.append({"ops": staircase_ops(wrng, rounds), "knobs": {}})
    for i in range(mrng.randint(1, 3)):
        knobs = {"blocklimit": wrng.choice((1, 2, 3, 8, 128)),
                 "limitmb": wrng.choice((128, 1e-4, 1e-5)),
                 "compound": wrng.random() < 0.6,
                 "inlinelimit": wrng.choice((1, 1, 3))}
        layouts.append({"ops": layout_ops(wrng, rounds), "knobs": knobs})
    # "forall writer front-ends": one more layout drives the same operations through a BufferedWriter whose
    # flush timer (a thread of its own) and limit decide how the commits are split
    br = random.Random("%s/buffered" % seed)
    flat = [op for rnd in rounds for op in rnd]
    if br.random() < 0.3 and not any(op[0] == "group" for op in flat):
        layouts.append({"ops": flat, "knobs": {"compound": br.random() < 0.6},
                        "frontend": {"kind": "buffered", "period": br.choice((0.002, 0.01, 0.05, 1.0)), "limit": br.choice((2, 3, 5, 100))}})
    # 20% of the runs end, in every layout, with a field taken out of the schema and the index-level
    # ix.optimize(): whatever the layout was, optimizing must physically drop the removed field
    xr = random.Random("%s/remove" % seed)
    removable = [n for n in cfg.fields if n not in ("k", "u", "t", "sp") and "*" not in n]
    removed = None
    if removable and xr.random() < 0.2:
        removed = xr.choice(removable)
        for lay in layouts:
            if lay.get("frontend"):
                continue
            lay["ops"] = lay["ops"] + [["writer", {}], ["remove_field", removed], ["commit", {"merge": "none"}], ["ix_optimize"]]
    from whoosim import queries as Q
    qr = random.Random("%s/queries" % seed)
    if removed:
        cfg.fields = [n for n in cfg.fields if n != removed]   # (after describe() below would be too late for the queries only)
    rec = {"prop": ID, "seed": seed, "config": None, "layouts": layouts,
           "has_deletes": deletes,
           "queries": [Q.gen_shaped_query(qr, cfg) for _ in range(3)] + [Q.gen_query(qr, cfg, depth=2) for _ in range(2)]}
    if removed:
        cfg.fields = cfg.fields + [removed]
    rec["config"] = cfg.describe()
    rec["removed_field"] = removed
    return rec


def exact_stats(docs, field_names, schema):
    out = {}
    for f in field_names:
        if schema[f].scorable:
            ls = [d.lengths.get(f, 0) for d in docs]
            out[f] = {"exact": sum(ls), "approx": sum(M.approx_len(l) for l in ls)}
    return out


def make_hooks(s, record, state):
    def check(actor, where):
        mi = s.model
        s.count("probes")
        try:
            r = actor.ix.reader()
        except (SimAbort, SimKilled, HarnessError):
            raise
        except Exception as e:  # noqa
            raise Violation("reader_open_raised", "%s: %s" % (type(e).__name__, e), sig="reader_open_raised:" + exc_sig(e))
        try:
            res = compare_reader(r, mi.docs, mi.schema, mi.field_names)
            if res:
                raise Violation("same_logical_content", "%s, generation %d: %s" % (where, mi.generation, res[1]),
                                sig="same_logical_content:" + res[0])
            # groups adjacent and in order
            uid2num = {}
            for dn in r.all_doc_ids():
                uid2num[r.stored_fields(dn).get("u")] = dn
            groups = {}
            for d in mi.docs:
                if d.group is not None:
                    groups.setdefault(d.group, []).append(d.uid)
            for g, uids in groups.items():
                nums = [uid2num[u] for u in uids]
                # members deleted later leave gaps only where a member is gone
                if nums != sorted(nums):
                    raise Violation("groups_stay_adjacent", "%s: group members %s have document numbers %s (order changed)" % (where, uids, nums))
                span = nums[-1] - nums[0] + 1
                inter = [u for u, n in uid2num.items() if nums[0] <= n <= nums[-1] and u not in uids]
                if inter:
                    raise Violation("groups_stay_adjacent", "%s: documents %s sit between members of group %s" % (where, inter, uids))
                s.count("groups_checked")
            if actor.last_commit_kind == "optimize" and where == "after commit":
                if r.doc_count_all() != len(mi.docs) or r.has_deletions():
                    raise Violation("optimize_physically_removes", "after optimize doc_count_all()=%d, live=%d, has_deletions=%s"
                                    % (r.doc_count_all(), len(mi.docs), r.has_deletions()))
                if not r.is_atomic() and len(list(r.leaf_readers())) > 1:
                    raise Violation("optimize_physically_removes", "after optimize the index has %d segments" % len(list(r.leaf_readers())))
                # no lexicon entry of terms only deleted documents had / removed fields
                import whoosim.dump as D
                got = D.real_dump(r, mi.schema, parts=("terms",))
                if got.get("dead_terms"):
                    raise Violation("optimize_physically_removes", "after optimize the lexicon still lists terms without live postings: %s" % (got["dead_terms"][:4],))
                gone = set(getattr(mi, "ever_removed", ())) - set(mi.field_names)
                still = sorted(gone & set(r.indexed_field_names()))
                if still:
                    raise Violation("optimize_physically_removes", "after optimize the segment still holds the postings of removed field(s) %s (indexed_field_names() = %s)"
                                    % (still, sorted(r.indexed_field_names())), sig="optimize_physically_removes:removed_field")
                if gone:
                    s.count("removed_field_purge_checks")
                s.count("optimize_checks")
            # collection statistics (no deletions ever): layout independent == model
            if not record.get("has_deletes"):
                ex = exact_stats(mi.docs, mi.field_names, mi.schema)
                for f, e in ex.items():
                    fl = r.field_length(f)
                    if fl != e["exact"]:
                        merged = state["merged"]
                        lo, hi = sorted((e["approx"], e["exact"]))
                        if merged and lo <= fl <= hi:
                            sig = "collection_stats:field_length_resummed_after_merge"
                        else:
                            sig = "collection_stats:field_length"
                        s.soft(Violation("collection_stats_layout_independent",
                                         "%s: field_length(%s)=%s, exact total %s (sum of 1-byte approximations %s; merged=%s)"
                                         % (where, f, fl, e["exact"], e["approx"], merged), sig=sig))
                s.count("stats_checks")
        finally:
            r.close()

    def before_commit(actor, m):
        if m in ("optimize", "default", "custom"):
            state["merged"] = True

    def after_commit(actor, probe_only=False):
        check(actor, "after commit")

    def check_queries(actor, where):
        """'...and therefore the result set of every query' - and, while nothing was deleted or merged,
        the scores: evaluated on the final state of every layout against the reference model."""
        from whoosh import query
        from whoosim import queries as Q
        from whoosim.props.c09 import reference_leaf, close
        mi = s.model
        with actor.ix.searcher() as srch:
            for spec in record.get("queries") or []:
                try:
                    exp = Q.evaluate(spec, mi.docs, mi.schema)
                except Q.Ambiguous:
                    continue
                q = Q.build(spec, mi.schema)
                try:
                    got = set(h["u"] for h in srch.search(q, limit=None))
                    got2 = set(srch.stored_fields(dn)["u"] for dn in srch.docs_for_query(q))
                except (SimAbort, SimKilled, HarnessError):
                    raise
                except Exception as e:  # noqa
                    raise Violation("search_raised", "%s: %s raised %s: %s" % (where, Q.show(spec), type(e).__name__, e), sig="search_raised:" + exc_sig(e))
                s.count("query_checks")
                if got != exp or got2 != exp:
                    raise Violation("same_logical_content", "%s: %s returns uids %s / %s, the model says %s" % (where, Q.show(spec), sorted(got)[:12], sorted(got2)[:12], sorted(exp)[:12]),
                                    sig="same_logical_content:query_results")
            if not record.get("has_deletes") and not state["merged"] and "t" in mi.field_names:
                # default BM25F on a state that was never merged: field length totals are exact, so the
                # documented formula on the model's statistics must be met whatever the partition into commits
                for word in list(s.cfg.vocab)[:3]:
                    ref = reference_leaf(["bm25f"], "t", word, mi.docs, mi.schema, mi.field_names)
                    try:
                        got = dict((h["u"], h.score) for h in srch.search(query.Term("t", word), limit=None))
                    except (SimAbort, SimKilled, HarnessError):
                        raise
                    except Exception as e:  # noqa
                        raise Violation("search_raised", "%s: Term(t,%s) raised %s: %s" % (where, word, type(e).__name__, e), sig="search_raised:" + exc_sig(e))
                    s.count("score_checks")
                    bad = [(u, got.get(u), ref[u]) for u in ref if u not in got or not close(got[u], ref[u])]
                    if bad or set(got) != set(ref):
                        raise Violation("collection_stats_layout_independent", "%s: Term(t,%s) scores (uid, observed, BM25F on the model's statistics) = %s"
                                        % (where, word, bad[:3]), sig="scores_layout_independent")

    def finish(actor):
        actor.ix = None
        s.new_process("final")
        if s.index_exists():
            actor.ensure_index()
            check(actor, "cold reopen")
            check_queries(actor, "final state")
    return {"after_commit": after_commit, "finish": finish, "before_commit": before_commit}


def run_buffered_layout(s, actor, hooks, lay, state):
    """The layout's operations through a BufferedWriter: its limit and its flush timer (a simulated
    thread scheduled against the caller at every storage event) split them into commits."""
    from whoosh.writing import BufferedWriter
    fe = lay["frontend"]
    ix = actor.ensure_index()
    state["merged"] = True    # its flushes commit with the default merge policy

    def guard(fn, what):
        try:
            return fn()
        except (SimAbort, SimKilled, HarnessError, Violation):
            raise
        except Exception as e:  # noqa
            raise Violation("frontend_raised", "BufferedWriter.%s raised %s: %s" % (what, type(e).__name__, e), sig="frontend_raised:buffered:%s:%s" % (what, exc_sig(e)))
    bw = guard(lambda: BufferedWriter(ix, period=fe["period"], limit=fe["limit"], writerargs=dict(s.cfg.writer_kwargs())), "__init__")
    for op in lay["ops"]:
        s.k.event("step", "bw." + op[0])
        mw = s.model.writer()
        if op[0] == "add":
            guard(lambda: bw.add_document(**op[1]), "add_document")
            mw.add(op[1])
        elif op[0] == "update":
            guard(lambda: bw.update_document(**op[1]), "update_document")
            mw.update(op[1])
        elif op[0] == "del_term":
            guard(lambda: bw.delete_by_term(op[1], op[2]), "delete_by_term")
            mw.delete_by_term(op[1], op[2])
        mw.commit()
    guard(lambda: bw.close(), "close")
    s.count("commits")
    s.count("buffered_layouts")
    actor.commits += 1
    actor.last_commit_kind = "buffered"
    hooks["after_commit"](actor)


def run_layout(record, li, trace=False):
    lay = record["layouts"][li]
    conf = dict(record["config"])
    conf.update(lay.get("knobs") or {})
    cfg = cfg_from_record(conf)
    s = Session(record["seed"], cfg=cfg, keep_log=trace)
    try:
        state = {"merged": False}
        hooks = make_hooks(s, record, state)
        actor = HistActor(s, after_commit=hooks["after_commit"], before_commit=hooks["before_commit"])
        try:
            if lay.get("frontend"):
                run_buffered_layout(s, actor, hooks, lay, state)
            else:
                actor.run(lay["ops"])
            hooks["finish"](actor)
            st = s.full_stats()
            st.update(s.k.counters)
            st["events"] = s.k.seq
            st["sim_seconds"] = (s.k.now_us - 1_700_000_000_000_000) / 1e6
            st["_known_hits"] = dict(s.known_hits)
            return None, st, s.k.event_digest(), s.model
        except Violation as v:
            return v, s.full_stats(), s.k.event_digest(), None
    finally:
        s.close()


def execute(record, trace=False):
    import hashlib
    h = hashlib.sha256()
    agg = {}
    khits = {}
    nlay = len(record["layouts"])
    for li in range(nlay):
        try:
            v, st, dg, _ = run_layout(record, li, trace)
        except (SimAbort, SimKilled) as e:
            return engine.result_harness("layout %d aborted: %s" % (li, type(e).__name__))
        except HarnessError as e:
            return engine.result_harness("HarnessError: %s" % e)
        h.update(dg.encode())
        for sg, n in (st.pop("_known_hits", None) or {}).items():
            khits[sg] = khits.get(sg, 0) + n
        for k, x in st.items():
            if isinstance(x, (int, float)):
                agg[k] = agg.get(k, 0) + x
        if v is not None:
            res = engine.result_violation(v.clause, "layout %d of %d: %s" % (li, nlay, v.detail), sig=v.sig,
                                          stats=agg, digest=h.hexdigest())
            res["layout_index"] = li
            return res
    agg["layouts"] = nlay
    smp = {"seed": record["seed"], "layouts": [[(op[0] if op[0] != "commit" else "commit:" + op[1]["merge"]) for op in l["ops"]][:30]
                                               for l in record["layouts"]],
           "knobs": [l.get("knobs") for l in record["layouts"]]}
    res = engine.result_ok(stats=agg, digest=h.hexdigest(),
                           nontrivial=(nlay >= 2 and agg.get("commits", 0) >= nlay), sample=smp)
    res["known_hits"] = khits
    return res


def shrink(record, fails, budget):
    # reduce to the single failing layout if it fails alone, then shrink its history
    r0 = execute(record)
    li = r0.get("layout_index", 0)
    single = copy.deepcopy(record)
    single["layouts"] = [record["layouts"][li]]
    budget[0] -= 1
    if not fails(single):
        return record
    conf = dict(single["config"])
    conf.update(single["layouts"][0].get("knobs") or {})
    flat = {"prop": ID, "seed": record["seed"], "config": conf, "ops": single["layouts"][0]["ops"]}

    def fails_flat(rec):
        full = {"prop": ID, "seed": rec["seed"], "config": rec["config"], "has_deletes": record.get("has_deletes"),
                "layouts": [{"ops": rec["ops"], "knobs": {}}]}
        return fails(full)
    flat = _hist.shrink_hist(flat, fails_flat, budget)
    return {"prop": ID, "seed": flat["seed"], "config": flat["config"], "has_deletes": record.get("has_deletes"),
            "layouts": [{"ops": flat["ops"], "knobs": {}}]}
