"""C18 - storage back-ends and writer front-ends are interchangeable."""

import copy
import random

from whoosim import engine
from whoosim.hist import HistActor, custom_policy
from whoosim.kernel import HarnessError, SimAbort, SimKilled
from whoosim.props import _hist
from whoosim.props.c03 import shrink_sched
from whoosim.sched import SchedSession
from whoosim.session import Violation, cfg_from_record, compare_reader, exc_sig
from whoosim.workload import DocGen, RunConfig

ID = "C18"
LEVEL = "exploration"
REAL = _hist.REAL + ["whoosh.multiproc (MpWriter, SerialMpWriter, SubWriterTask.run, job files, run merging)",
                     "whoosh.writing.AsyncWriter / BufferedWriter", "whoosh.codec.memory (in-memory codec behind BufferedWriter)",
                     "whoosh.filedb.filestore.RamStorage, copy_to_ram"]
STUBS = _hist.STUBS + ["multiprocessing.Process.start/join (sub-writers are tasks in their own simulated process, state copied by pickling as fork would)",
                       "multiprocessing.Queue (pickle-copy semantics, feeder-delay visibility drawn from the seed)",
                       "threading.Timer / RLock / Thread.start of BufferedWriter and AsyncWriter (tasks under the scheduler, simulated clock)"]
RULE = ("per-run seed -> one document-level operation list + one configuration from storage {simulated FileStorage with mmap, "
        "without mmap, RamStorage; final copy_to_ram} x packing {compound, loose} x front-end {plain, MpWriter(procs 2-4, "
        "batchsize 1-7, merged or multisegment), SerialMpWriter, BufferedWriter(period, limit) driven by 1-3 caller threads, "
        "AsyncWriter(delay) with or without a plain writer holding the lock, callers pausing between calls}; some documents carry stored "
        "values only; sort-pool merge width k in {2,3,5,64}. The seeded scheduler (uniform / sticky / PCT; GC at seeded step events) decides sub-process start "
        "order, which sub-writer dequeues which job file, queue visibility delays, async poll timing and when the buffered "
        "writer's timer fires relative to caller steps. The final (and per-commit) logical dump must equal the reference model "
        "(the same for every configuration). Non-trivial = >=1 commit and >=1 read-back; distinct = distinct event-log SHA-256."
        ' Line-level pre-emption in 40% of the buffered/async runs; dense polling of the async replay thread.'
        ' Async runs may start from a populated index, delete by query and race an optimizing lock holder; generated queries through BufferedWriter.searcher(); the program may end right after the last AsyncWriter.commit().')
ASSUMPTIONS = ["BufferedWriter applies deletes/updates to buffered documents as well (its documented behaviour); the model applies every operation immediately for that front-end",
               "with several caller threads each thread works on its own keys, so the result does not depend on the order in which the buffered writer's lock serialises them",
               "AsyncWriter is driven with the calls it documents as buffered (add, update, delete_by_term)",
               "MpWriter over RamStorage is not a meaningful combination (sub-processes share no memory) and is not generated",
               "MpWriter.cancel() is exercised by C04 and C10 (repaired there, eb9bff1), not here: every C18 transaction commits"]
TIERS = {"quick": {"runs": 700, "time_budget": 100, "audit_every": 40},
         "thorough": {"runs": 30000, "time_budget": 1500, "audit_every": 100}}

FRONTENDS = ("plain", "mp", "mp", "mpmulti", "serialmp", "buffered", "buffered", "bufferedN", "async_free", "async_blocked")


def gen_doc_ops(rng, cfg, dg, n, keys, deletes=True, groups=True):
    ops = []
    for _ in range(n):
        c = rng.random()
        if c < 0.55 or (c < 0.65 and not groups):
            ops.append(["add", dg.doc(key=rng.choice(keys))])
        elif c < 0.65:
            ops.append(["group", [dg.doc(key=rng.choice(keys)) for _ in range(rng.randint(2, 3))]])
        elif c < 0.8:
            ops.append(["update", dg.doc(key=rng.choice(keys))])
        elif deletes:
            ops.append(["del_term", "k", u"k%03d" % rng.choice(keys)])
    return ops


def generate(seed, tier):
    from whoosim import seams
    seams.load_whoosh()
    crng = random.Random("%s/config" % seed)
    wrng = random.Random("%s/workload" % seed)
    mrng = random.Random("%s/mode" % seed)
    want = [n for n in ("tv", "kw", "n", "so", "s") if mrng.random() < 0.4]
    cfg = RunConfig(crng, want=want, force={"long_text_p": 0.0})
    fe = mrng.choice(FRONTENDS)
    # some documents carry stored values only (no posting at all): a sub-writer whose
    # whole share is such documents has nothing to sort, which must not lose them
    dg = DocGen(cfg, wrng, nkeys=12, stored_only_p=(0.25 if (fe in ("mp", "mpmulti", "serialmp", "plain") and mrng.random() < 0.4) else 0.0))
    storage_kind = mrng.choice(("file", "file", "ram"))
    if fe in ("mp", "mpmulti"):
        storage_kind = "file"
    rec = {"prop": ID, "seed": seed, "config": cfg.describe(), "storage_kind": storage_kind,
           "frontend": fe, "copy_to_ram": mrng.random() < 0.3,
           "gc_tick": random.Random("%s/gcmode" % seed).choice((0, 0, 0.03, 0.1)),
           "policy": mrng.choice((["uniform"], ["sticky", 0.5], ["sticky", 0.9], ["sticky", 0.99],
                                  ["pct", mrng.randint(1, 3), mrng.choice((300, 1500, 4000))])),
           "schedule": None}
    # line-level pre-emption between the caller threads, the flush timer and the async replay thread
    lrng = random.Random("%s/lines" % seed)
    if fe in ("buffered", "bufferedN", "async_free", "async_blocked") and lrng.random() < 0.4:
        rec["lines"] = [lrng.choice((0.02, 0.1, 0.3)), lrng.choice((3, 10, 30))]
    merges = ("none", "none", "default", "optimize")
    if fe in ("plain", "mp", "mpmulti", "serialmp"):
        txs = []
        for _ in range(mrng.randint(1, 4)):
            # SerialMpWriter is the suite's test double: it deals documents round-robin
            # and has no grouping support at all, so it gets no groups
            body = gen_doc_ops(wrng, cfg, dg, wrng.randint(1, 8), list(range(12)), groups=(fe != "serialmp"))
            txs.append({"body": body, "end": ["commit", {"merge": wrng.choice(merges)}]})
        rec["txs"] = txs
        # k = how many run files a sub-writer merges at a time when it reduces its sort pool to one run
        rec["fe_args"] = {"procs": mrng.randint(2, 4), "batchsize": mrng.randint(1, 7), "k": mrng.choice((64, 64, 2, 3, 5))}
    elif fe in ("buffered", "bufferedN"):
        nthreads = 1 if fe == "buffered" else mrng.randint(2, 3)
        threads = []
        for ti in range(nthreads):
            keys = list(range(ti * 6, ti * 6 + 6))
            ops = gen_doc_ops(wrng, cfg, dg, wrng.randint(2, 10), keys)
            # sprinkle explicit commits, searcher checks and sleeps
            out = []
            for op in ops:
                out.append(op)
                c = wrng.random()
                if c < 0.12:
                    out.append(["bw_commit"])
                elif c < 0.3:
                    out.append(["bw_search"])
                elif c < 0.4:
                    out.append(["sleep", wrng.choice((0.5, 3.0, 20.0))])
            threads.append(out)
        rec["threads"] = threads
        rec["fe_args"] = {"period": mrng.choice((0, 2, 10, 60)), "limit": mrng.choice((1, 2, 3, 5, 10))}
        # "the same search results": generated query trees (prefix, wildcard, fuzzy, phrase, ranges ... included)
        # through the BufferedWriter's own searcher
        from whoosim import queries as Q
        qr = random.Random("%s/queries" % seed)
        rec["queries"] = [Q.gen_query(qr, cfg, depth=qr.choice((1, 1, 2))) for _ in range(4)]
    else:
        # async: one async transaction, optionally racing a blocker that holds the lock
        rec["txs"] = [{"body": [op for op in gen_doc_ops(wrng, cfg, dg, wrng.randint(1, 6), list(range(12)))
                                if op[0] != "group"],
                       "end": ["commit", {"merge": wrng.choice(merges)}]}
                      for _ in range(mrng.randint(1, 3))]
        # the caller may pause between calls (the lock can change hands in the middle of a transaction)
        for tx in rec["txs"]:
            body = []
            for op in tx["body"]:
                if wrng.random() < 0.3:
                    body.append(["sleep", wrng.choice((0.05, 0.3, 1.0, 3.0))])
                body.append(op)
            tx["body"] = body
        # the lock holder may add documents that the buffered transaction deletes by term: the
        # delete has to be resolved when it is replayed, not when it was called
        targets = [int(op[2][1:]) for op in rec["txs"][0]["body"] if op[0] == "del_term" and op[1] == "k"]
        bkeys = [(wrng.choice(targets) if (targets and wrng.random() < 0.7) else 100 + i) for i in range(2)]
        # a short delay makes the replay thread poll the lock densely: its attempts then land inside the
        # few storage operations between the holder's TOC rename and the end of its clean-up
        rec["fe_args"] = {"delay": random.Random("%s/delay" % seed).choice((mrng.choice((0.05, 0.25)), 0.002, 0.0005)), "hold": mrng.choice((0.01, 0.3, 1.0)),
                          "blocker_docs": [dg.doc(key=k_) for k_ in bkeys]}
        # half of the async runs start from an index that already holds documents (two segments, one
        # deleted document) and delete by query; the lock holder may optimize, which renumbers documents:
        # a delete buffered by the AsyncWriter has to be resolved when it is replayed
        br = random.Random("%s/base" % seed)
        if br.random() < 0.5:
            rec["base"] = [[dg.doc(key=50 + i) for i in range(br.randint(2, 4))],
                           [dg.doc(key=60 + i) for i in range(br.randint(1, 3))]]
            rec["fe_args"]["blocker_merge"] = br.choice(("none", "optimize", "optimize"))
            for tx in rec["txs"]:
                if br.random() < 0.6:
                    tx["body"].insert(br.randrange(len(tx["body"]) + 1), ["del_query", ["term", "t", br.choice(cfg.vocab)]])
    return rec


def merge_kwargs(arg):
    m = arg.get("merge", "default")
    if m == "none":
        return {"merge": False}
    if m == "optimize":
        return {"optimize": True}
    if m == "custom":
        return {"mergetype": custom_policy(arg.get("mask", 1))}
    return {}


ALL_PARTS = ("count", "docs", "stored", "lengths", "vectors", "columns", "terms")


def check_index(s, ix, where, parts=None, soft_columns=False):
    if soft_columns and parts is None:
        check_index(s, ix, where, parts=tuple(p for p in ALL_PARTS if p != "columns"))
        try:
            check_index(s, ix, where, parts=("columns",))
        except Violation as v:
            if v.sig == "same_logical_index:columns":
                v.sig = "same_logical_index:columns:buffered_documents"
            s.soft(v)
        return
    mi = s.model
    s.count("probes")
    try:
        r = ix.reader()
    except (SimAbort, SimKilled, HarnessError):
        raise
    except Exception as e:  # noqa
        raise Violation("reader_open_raised", "%s: %s: %s" % (where, type(e).__name__, e), sig="reader_open_raised:" + exc_sig(e))
    try:
        res = compare_reader(r, mi.docs, mi.schema, mi.field_names, parts=parts)
    finally:
        r.close()
    if res:
        raise Violation("same_logical_index", "%s: %s" % (where, res[1]), sig="same_logical_index:" + res[0])


class PlainLike(object):
    """plain / MpWriter / SerialMpWriter: a sequence of transactions."""

    def __init__(self, s, record):
        self.s = s
        self.record = record
        self.violation = None
        self.name = "F"
        self.own_process = True
        self.ix = None

    def make_writer(self, ix):
        s = self.s
        fe = self.record["frontend"]
        kw = dict(s.cfg.writer_kwargs())
        a = self.record.get("fe_args") or {}
        if fe == "plain":
            return ix.writer(**kw)
        if fe in ("mp", "mpmulti", "serialmp") and a.get("k", 64) != 64:
            kw = dict(kw, k=a["k"])
        if fe in ("mp", "mpmulti"):
            from whoosh.multiproc import MpWriter
            return MpWriter(ix, procs=a.get("procs", 2), batchsize=a.get("batchsize", 3),
                            multisegment=(fe == "mpmulti"), **kw)
        if fe == "serialmp":
            from whoosh.multiproc import SerialMpWriter
            return SerialMpWriter(ix, procs=a.get("procs", 2), batchsize=a.get("batchsize", 3), **kw)
        raise HarnessError(fe)

    def body(self):
        s = self.s
        try:
            actor = HistActor(s, writer_factory=lambda ix, kw: self.make_writer(ix),
                              after_commit=lambda a, probe_only=False: check_index(s, a.ix, "after commit %d" % s.model.generation))
            actor.ix = self.ix
            for tx in self.record["txs"]:
                actor.step(["writer", {}])
                for op in tx["body"]:
                    actor.step(op)
                actor.step(tx["end"])
        except Violation as v:
            self.violation = v


class AsyncFront(object):
    def __init__(self, s, record):
        self.s = s
        self.record = record
        self.violation = None
        self.name = "F"
        self.own_process = False   # AsyncWriter's retry thread lives in this process
        self.ix = None
        self.started = False

    def body(self):
        from whoosh.writing import AsyncWriter
        s = self.s
        k = s.k
        a = self.record.get("fe_args") or {}
        try:
            for ti, tx in enumerate(self.record["txs"]):
                k.event("step", "async.tx")
                if self.record["frontend"] == "async_blocked" and ti == 0:
                    # let the blocker take the lock first
                    k.block_until(lambda: s.blocker_has_lock or s.blocker_done, desc="wait for blocker")
                kw = dict(s.cfg.writer_kwargs())
                # (a thread inherits the daemon flag of its creator; the simulator's task threads are daemon
                # threads of the host interpreter, an application's main thread is not)
                import threading as _real_threading
                _ct = _real_threading.current_thread()
                _was = _ct._daemonic
                _ct._daemonic = False
                try:
                    try:
                        w = AsyncWriter(self.ix, delay=a.get("delay", 0.25), writerargs=kw)
                    finally:
                        _ct._daemonic = _was
                except (SimAbort, SimKilled, HarnessError):
                    raise
                except Exception as e:  # noqa
                    raise Violation("frontend_raised", "AsyncWriter() raised %s: %s" % (type(e).__name__, e), sig="frontend_raised:" + exc_sig(e))
                buffered = w.writer is None
                if buffered:
                    s.count("async_buffered")
                else:
                    s.count("async_passthrough")
                ops = []
                for op in tx["body"]:
                    k.event("step", "async." + op[0])
                    try:
                        if op[0] == "add":
                            w.add_document(**op[1])
                        elif op[0] == "update":
                            w.update_document(**op[1])
                        elif op[0] == "del_term":
                            w.delete_by_term(op[1], op[2])
                        elif op[0] == "del_query":
                            from whoosim import queries as Q
                            w.delete_by_query(Q.build(op[1], s.model.schema))
                        elif op[0] == "sleep":
                            k.sleep(op[1])
                            continue
                        else:
                            continue
                    except (SimAbort, SimKilled, HarnessError):
                        raise
                    except Exception as e:  # noqa
                        raise Violation("frontend_raised", "AsyncWriter.%s raised %s: %s" % (op[0], type(e).__name__, e),
                                        sig="frontend_raised:" + exc_sig(e))
                    ops.append(op)
                # The model applies the transaction at the moment the real writer
                # exists: now (pass-through) or when the retry thread got the lock;
                # with a single blocker both orders of model application are decided
                # by who commits first, which the TOC rename order tells us.
                self.pending = (ops, tx["end"])
                try:
                    w.commit(**merge_kwargs(tx["end"][1]))
                    if buffered and getattr(w, "daemon", False) and ti == len(self.record["txs"]) - 1:
                        # the caller has nothing more to do and its program ends: the interpreter waits for
                        # ordinary threads and drops daemon threads on the floor. What was handed to the
                        # writer must be saved all the same (a plain writer would have saved it).
                        self.exit_now = True
                    elif buffered:
                        # wait for the retry thread to finish (bounded liveness)
                        k.block_until(lambda: not w.is_alive(), desc="async join")
                except (SimAbort, SimKilled, HarnessError):
                    raise
                except Exception as e:  # noqa
                    raise Violation("frontend_raised", "AsyncWriter.commit raised %s: %s" % (type(e).__name__, e),
                                    sig="frontend_raised:" + exc_sig(e))
                # apply to the model: the blocker (if it was holding the lock when we
                # started) has necessarily committed before our replay did
                if buffered and not s.blocker_applied:
                    s.apply_blocker()
                mw = s.model.writer()
                for op in ops:
                    if op[0] == "add":
                        mw.add(op[1])
                    elif op[0] == "update":
                        mw.update(op[1])
                    elif op[0] == "del_term":
                        mw.delete_by_term(op[1], op[2])
                    elif op[0] == "del_query":
                        from whoosim import queries as Q
                        mw.delete_uids(Q.evaluate(op[1], mw.live(), mw.schema))
                        s.count("async_delete_by_query")
                mw.commit()
                s.count("commits")
                if getattr(self, "exit_now", False):
                    s.count("async_program_exit_with_daemon_thread")
                    proc = k.current.proc
                    s.os.kill(proc)
                    k.reap_tasks_of(proc)
                    return
                if s.blocker_done or self.record["frontend"] == "async_free":
                    if not s.blocker_applied and s.blocker_done:
                        s.apply_blocker()
                    check_index(s, self.ix, "after async commit %d" % (ti + 1))
        except Violation as v:
            self.violation = v


class Blocker(object):
    """A plain writer that holds the lock for a while (async_blocked)."""

    def __init__(self, s, record):
        self.s = s
        self.record = record
        self.violation = None
        self.name = "B"
        self.own_process = True
        self.ix = None

    def body(self):
        s = self.s
        a = self.record.get("fe_args") or {}
        try:
            w = self.ix.writer(**s.cfg.writer_kwargs())
            s.blocker_has_lock = True
            for d in a.get("blocker_docs", []):
                w.add_document(**d)
            s.k.sleep(a.get("hold", 0.3))
            if a.get("blocker_merge") == "optimize":
                w.commit(optimize=True)
            else:
                w.commit(merge=False)
            s.blocker_has_lock = False
            s.blocker_done = True
        except Violation as v:
            self.violation = v


class BufferedFront(object):
    """One BufferedWriter shared by caller threads (all in one process)."""

    def __init__(self, s, record, shared, ti, ops):
        self.s = s
        self.record = record
        self.shared = shared
        self.ti = ti
        self.ops = ops
        self.violation = None
        self.name = "C%d" % ti
        self.own_process = False
        self.ix = None

    def model_op(self, op):
        mw = self.s.model.writer()
        if op[0] == "add":
            mw.add(op[1])
        elif op[0] == "group":
            mw.start_group()
            for d in op[1]:
                mw.add(d)
            mw.end_group()
        elif op[0] == "update":
            mw.update(op[1])
        elif op[0] == "del_term":
            mw.delete_by_term(op[1], op[2])
        mw.commit()

    def body(self):
        from whoosh.writing import BufferedWriter
        s = self.s
        k = s.k
        a = self.record.get("fe_args") or {}
        sh = self.shared
        try:
            if self.ti == 0:
                try:
                    sh["bw"] = BufferedWriter(self.ix, period=a.get("period", 60), limit=a.get("limit", 10),
                                              writerargs=dict(s.cfg.writer_kwargs()))
                except (SimAbort, SimKilled, HarnessError):
                    raise
                except Exception as e:  # noqa
                    raise Violation("frontend_raised", "BufferedWriter() raised %s: %s" % (type(e).__name__, e), sig="frontend_raised:" + exc_sig(e))
            else:
                k.block_until(lambda: "bw" in sh or sh.get("failed"), desc="wait for BufferedWriter")
                if sh.get("failed"):
                    return
            bw = sh["bw"]
            single = len(self.record["threads"]) == 1
            for op in self.ops:
                k.event("step", "bw." + op[0])
                try:
                    if op[0] == "add":
                        bw.add_document(**op[1])
                        self.model_op(op)
                    elif op[0] == "group":
                        bw.start_group()
                        for d in op[1]:
                            bw.add_document(**d)
                        bw.end_group()
                        self.model_op(op)
                    elif op[0] == "update":
                        bw.update_document(**op[1])
                        self.model_op(op)
                    elif op[0] == "del_term":
                        bw.delete_by_term(op[1], op[2])
                        self.model_op(op)
                    elif op[0] == "bw_commit":
                        bw.commit()
                        s.count("commits")
                    elif op[0] == "sleep":
                        k.sleep(op[1])
                    elif op[0] == "bw_search" and single:
                        srch = bw.searcher()
                        try:
                            mi = s.model
                            res = compare_reader(srch.reader(), mi.docs, mi.schema, mi.field_names,
                                                 parts=("count", "docs", "stored", "terms", "columns"))
                            if not res:
                                # ... and answers searches over it, limited ones included
                                from whoosh import query
                                word = s.cfg.vocab[0]
                                exp = sorted(d.uid for d in mi.docs if word.encode() in d.postings.get("t", {}))
                                try:
                                    full = sorted(h["u"] for h in srch.search(query.Term("t", word), limit=None))
                                    lim = srch.search(query.Term("t", word), limit=1)
                                    nlim, limu = len(lim), [h["u"] for h in lim]
                                except (SimAbort, SimKilled, HarnessError):
                                    raise
                                except Exception as e:  # noqa
                                    raise Violation("buffered_view", "a search through BufferedWriter.searcher() raised %s: %s" % (type(e).__name__, e),
                                                    sig="buffered_view:search_raised:" + exc_sig(e))
                                from whoosim import queries as Q
                                for spec in self.record.get("queries") or []:
                                    try:
                                        qexp = sorted(Q.evaluate(spec, mi.docs, mi.schema))
                                    except Q.Ambiguous:
                                        continue
                                    try:
                                        qgot = sorted(h["u"] for h in srch.search(Q.build(spec, mi.schema), limit=None))
                                    except (SimAbort, SimKilled, HarnessError):
                                        raise
                                    except Exception as e:  # noqa
                                        raise Violation("buffered_view", "%s through BufferedWriter.searcher() raised %s: %s" % (Q.show(spec), type(e).__name__, e),
                                                        sig="buffered_view:search_raised:" + exc_sig(e))
                                    s.count("buffered_query_checks")
                                    if qgot != qexp:
                                        raise Violation("buffered_view", "BufferedWriter.searcher(): %s returns uids %s, the committed+buffered documents that match are %s"
                                                        % (Q.show(spec), qgot[:12], qexp[:12]), sig="buffered_view:query")
                                if full != exp or nlim != len(exp) or not set(limu) <= set(exp) or len(limu) != min(1, len(exp)):
                                    raise Violation("buffered_view", "BufferedWriter.searcher(): Term(t,%s) returns %s (limit=1: %s, len %s), committed+buffered documents that match: %s"
                                                    % (word, full, limu, nlim, exp), sig="buffered_view:search")
                        finally:
                            srch.close()
                        s.count("buffered_view_checks")
                        if res:
                            raise Violation("buffered_view", "BufferedWriter.searcher() differs from committed+buffered documents: %s" % res[1],
                                            sig="buffered_view:" + res[0])
                except (SimAbort, SimKilled, HarnessError, Violation):
                    raise
                except Exception as e:  # noqa
                    raise Violation("frontend_raised", "BufferedWriter.%s raised %s: %s" % (op[0], type(e).__name__, e),
                                    sig="frontend_raised:%s:%s" % (op[0], exc_sig(e)))
            sh["done"] = sh.get("done", 0) + 1
            if self.ti == 0:
                k.block_until(lambda: sh.get("done", 0) >= len(self.record["threads"]) or sh.get("failed"), desc="wait callers")
                try:
                    bw.close()
                except (SimAbort, SimKilled, HarnessError):
                    raise
                except Exception as e:  # noqa
                    raise Violation("close_saves_everything", "BufferedWriter.close() raised %s: %s" % (type(e).__name__, e),
                                    sig="close_raised:" + exc_sig(e))
                s.count("commits")
                sh["closed"] = True
        except Violation as v:
            self.violation = v
            sh["failed"] = True


class C18Session(SchedSession):
    def __init__(self, *a, **kw):
        SchedSession.__init__(self, *a, **kw)
        self.blocker_has_lock = False
        self.blocker_done = False
        self.blocker_applied = True
        self.blocker_docs = []

    def apply_blocker(self):
        mw = self.model.writer()
        for d in self.blocker_docs:
            mw.add(d)
        mw.commit()
        self.blocker_applied = True


def execute(record, trace=False):
    cfg = cfg_from_record(record["config"])
    pol = record.get("policy") or ["sticky", 0.9]
    s = C18Session(record["seed"], cfg=cfg, keep_log=trace, policy=tuple(pol),
                   replay_schedule=record.get("schedule"), storage_kind=record.get("storage_kind", "file"))
    s.k.gc_tick_p = record.get("gc_tick", 0)
    fe = record["frontend"]
    try:
        try:
            s.setup_index()
            if record.get("base"):
                # the index the run starts from: two segments, the first with a deleted document
                bix = s.actor_storage().open_index()
                for bi, docs in enumerate(record["base"]):
                    w = bix.writer(**s.cfg.writer_kwargs())
                    mw = s.model.writer()
                    if bi == 1:
                        w.delete_by_term("k", record["base"][0][0]["k"])
                        mw.delete_by_term("k", record["base"][0][0]["k"])
                    for d in docs:
                        w.add_document(**d)
                        mw.add(d)
                    w.commit(merge=False)
                    mw.commit()
            if record.get("lines"):
                s.k.enable_lines(*record["lines"])
            actors = []
            shared = {}
            if fe in ("plain", "mp", "mpmulti", "serialmp"):
                actors.append(PlainLike(s, record))
            elif fe in ("buffered", "bufferedN"):
                for ti, ops in enumerate(record["threads"]):
                    actors.append(BufferedFront(s, record, shared, ti, ops))
            else:
                actors.append(AsyncFront(s, record))
                if fe == "async_blocked":
                    s.blocker_applied = False
                    s.blocker_docs = (record.get("fe_args") or {}).get("blocker_docs", [])
                    actors.append(Blocker(s, record))
            dl = s.run_actors(actors)
            st = s.full_stats()
            st.update(s.k.counters)
            st["events"] = s.k.seq
            st["switches"] = s.k.switches
            st["sim_seconds"] = (s.k.now_us - 1_700_000_000_000_000) / 1e6
            st["frontend_" + fe] = 1
            st["storage_" + record.get("storage_kind", "file")] = 1
            patch = {"schedule": list(s.k.schedule)}

            def viol(v):
                res = engine.result_violation(v.clause, v.detail, sig=v.sig, stats=st, digest=s.k.event_digest(),
                                              isig=s.k.interleaving_sig())
                res["record_patch"] = patch
                if trace:
                    res["log"] = s.k.log
                return res
            if dl is not None:
                return viol(Violation("no_deadlock", "no runnable task: %s" % [(d["task"], d["waiting_for"]) for d in dl],
                                      sig="deadlock:" + ",".join(sorted(set(d["waiting_for"] for d in dl)))))
            for a in actors:
                if a.violation is not None:
                    return viol(a.violation)
            for t in s.k.tasks:
                if t.exc is not None and not isinstance(t.exc, (SimAbort, SimKilled)):
                    return viol(Violation("frontend_raised", "task %s raised %s: %s" % (t.name, type(t.exc).__name__, t.exc),
                                          sig="task_raised:%s:%s" % (t.name.split(":")[0], exc_sig(t.exc))))
            try:
                if fe == "async_blocked" and not s.blocker_applied:
                    s.apply_blocker()
                # cold reopen in a brand-new process
                s.new_process("final")
                ix = s.actor_storage().open_index()
                check_index(s, ix, "final cold reopen")
                if fe in ("buffered", "bufferedN"):
                    pend = [t for t in getattr(s.k, "sim_timers", [])
                            if t._task is not None and not t._cancelled and not t._fired]
                    if pend:
                        raise Violation("close_saves_everything", "after close() %d timer thread(s) are still pending" % len(pend))
                from whoosh.index import LockError
                try:
                    w = ix.writer(timeout=0)
                    w.cancel()
                except LockError:
                    raise Violation("close_saves_everything", "write lock still held after the front-end finished")
                if record.get("copy_to_ram") and record.get("storage_kind") == "file":
                    from whoosh.filedb.filestore import copy_to_ram
                    ram = copy_to_ram(ix.storage)
                    check_index(s, ram.open_index(), "copy_to_ram")
                    s.count("copy_to_ram_checked")
            except Violation as v:
                return viol(v)
            st.update(s.stats)
            nontrivial = st.get("commits", 0) >= 1 and st.get("probes", 0) >= 1
            smp = {"seed": record["seed"], "frontend": fe, "fe_args": dict((k_, v_) for k_, v_ in (record.get("fe_args") or {}).items() if k_ != "blocker_docs"),
                   "storage": record.get("storage_kind"), "compound": cfg.compound, "policy": pol,
                   "ops": [[o[0] for o in t["body"]] + [t["end"][1].get("merge")] for t in record.get("txs", [])] or
                          [[o[0] for o in th] for th in record.get("threads", [])],
                   "switches": s.k.switches}
            res = engine.result_ok(stats=st, digest=s.k.event_digest(), nontrivial=nontrivial,
                                   isig=s.k.interleaving_sig(), sample=smp)
            res["known_hits"] = dict(s.known_hits)
            if trace:
                res["log"] = s.k.log
            return res
        except (SimAbort, SimKilled) as e:
            return engine.result_harness("run aborted: %s (%s) deadlock=%s" % (s.k.abort_reason, type(e).__name__, s.k.deadlock))
        except HarnessError as e:
            return engine.result_harness("HarnessError: %s" % e)
    finally:
        s.close()


def shrink(record, fails, budget):
    cur = copy.deepcopy(record)
    key = "txs" if "txs" in cur else "threads"
    if key == "txs":
        def test(items):
            t = copy.deepcopy(cur)
            t["txs"] = items
            return fails(t)
        cur["txs"] = engine.ddmin_list(cur["txs"], test, budget)
        for ti in range(len(cur["txs"])):
            def test2(items, ti=ti):
                t = copy.deepcopy(cur)
                t["txs"][ti]["body"] = items
                return fails(t)
            if len(cur["txs"][ti]["body"]) > 1:
                cur["txs"][ti]["body"] = engine.ddmin_list(cur["txs"][ti]["body"], test2, budget)
    else:
        for ti in range(len(cur["threads"])):
            def test3(items, ti=ti):
                t = copy.deepcopy(cur)
                t["threads"][ti] = items
                return fails(t)
            if len(cur["threads"][ti]) > 1:
                cur["threads"][ti] = engine.ddmin_list(cur["threads"][ti], test3, budget)
    for k_, v_ in _hist.DEFAULT_KNOBS.items():
        if budget[0] <= 0:
            break
        if cur["config"].get(k_) != v_:
            t = copy.deepcopy(cur)
            t["config"][k_] = v_
            budget[0] -= 1
            if fails(t):
                cur = t
    return cur
