"""C05 - limiting a search to the top N never changes which hits win or their scores."""

import copy
import random

from whoosim import engine
from whoosim import queries as Q
from whoosim.kernel import HarnessError, SimAbort, SimKilled
from whoosim.props import _hist
from whoosim.props.c01 import subtrees
from whoosim.session import Violation, cfg_from_record, exc_sig
from whoosim.workload import DocGen, RunConfig

ID = "C05"
LEVEL = "exploration"
REAL, STUBS = _hist.REAL, _hist.STUBS
RULE = ("per-run seed -> a corpus of 40-300 documents over a 5-9 word vocabulary built by a simulated history of 1-4 commits "
        "(segment layouts, optional deletions and merges) with posting block limit in {1,2,3,4,8,16} so that posting lists "
        "span many blocks + 8 generated query trees (boosts, nested boolean operators, negation, DisjunctionMax, ranges, "
        "phrases) + a weighting model drawn from BM25F (random B/K1, per-field B), TF_IDF, Frequency, PL2, DFree, "
        "MultiWeighting, ReverseWeighting, FunctionWeighting + knobs (ArrayUnionMatcher part size 4..2048). For each query and k in {1,2,3,5,10} the "
        "limited search is compared with the prefix of the exhaustive ranking computed on the same simulated state, with and "
        "without filter / mask / terms=True. Runs where neither block skipping nor matcher replacement engaged are counted "
        "as trivial. distinct = distinct event-log SHA-256 x queries."
        ' Extras include collapse (limited collapsed = head of unlimited collapsed); inlinelimit 1/3/8/20; replace 0/1/2/10/50; vocabulary drift with directed queries over exhausted Or branches.')
ASSUMPTIONS = ["differential oracle: the exhaustive ranking search(q, limit=None) of the same searcher is the reference (its own correctness is C01/C09)",
               "scores are compared with relative tolerance 1e-9; the exhaustive ranking must itself be ordered by descending score, ascending document number",
               "the corpus and query dimensions are sampled workload; the simulator contributes segment layouts, deletion sets, block sizes and collector knobs"]
TIERS = {"quick": {"runs": 480, "time_budget": 110, "audit_every": 40},
         "thorough": {"runs": 12000, "time_budget": 1600, "audit_every": 100}}

WEIGHTINGS = ["bm25f", "bm25f", "bm25f_params", "bm25f_fieldb", "tfidf", "frequency", "pl2", "dfree", "multi", "reverse", "function"]


def make_weighting(spec):
    from whoosh import scoring
    k = spec[0]
    if k == "bm25f":
        return scoring.BM25F()
    if k == "bm25f_params":
        return scoring.BM25F(B=spec[1], K1=spec[2])
    if k == "bm25f_fieldb":
        return scoring.BM25F(B=spec[1], K1=spec[2], t_B=spec[3])
    if k == "tfidf":
        return scoring.TF_IDF()
    if k == "frequency":
        return scoring.Frequency()
    if k == "pl2":
        return scoring.PL2(c=spec[1])
    if k == "dfree":
        return scoring.DFree()
    if k == "multi":
        return scoring.MultiWeighting(scoring.BM25F(), kw=scoring.Frequency(), tb=scoring.TF_IDF())
    if k == "reverse":
        return scoring.ReverseWeighting(scoring.BM25F())
    if k == "function":
        return scoring.FunctionWeighting(_posfn)
    if k == "bm25f_final":
        # a final() hook that depends on the document itself: score + FINAL_ADJ * (stored uid)
        class FinalBM25F(scoring.BM25F):
            use_final = True

            def final(self, searcher, docnum, score):
                return score + FINAL_ADJ * searcher.stored_fields(docnum)["u"]
        return FinalBM25F()
    raise HarnessError(spec)


FINAL_ADJ = 0.015625


def _posfn(searcher, fieldname, text, matcher):
    return 1.0 + 0.5 * matcher.weight()


def generate(seed, tier):
    from whoosim import seams
    seams.load_whoosh()
    crng = random.Random("%s/config" % seed)
    wrng = random.Random("%s/workload" % seed)
    mrng = random.Random("%s/mode" % seed)
    want = [n for n in ("kw", "tb", "n") if mrng.random() < 0.6]
    cfg = RunConfig(crng, allow=["kw", "tb", "n", "tc"], want=want,
                    force={"long_text_p": mrng.choice((0.0, 0.1)), "limitmb": 128,
                           # short posting lists inlined in the term dictionary are read through ListMatcher,
                           # which has its own block-quality methods
                           "inlinelimit": random.Random("%s/inline" % seed).choice((1, 1, 1, 3, 8, 20))})
    cfg.vocab = cfg.vocab[:mrng.randint(5, 9)]
    cfg.blocklimit = mrng.choice((1, 2, 3, 4, 8, 16))
    dg = DocGen(cfg, wrng, nkeys=10 ** 6)
    ndocs = mrng.choice((40, 80, 150, 300))
    drng = random.Random("%s/drift" % seed)
    if drng.random() < 0.4:
        dg.drift = (drng.sample(cfg.vocab, drng.randint(1, 2)), int(ndocs * drng.choice((0.15, 0.3, 0.5))))
    ncommits = mrng.randint(1, 4)
    deletes = mrng.random() < 0.5
    ops = []
    per = max(1, ndocs // ncommits)
    key = 0
    for ci in range(ncommits):
        ops.append(["writer", {}])
        if deletes and ci > 0:
            for _ in range(wrng.randint(1, 6)):
                ops.append(["del_term", "k", u"k%03d" % wrng.randrange(max(1, key))])
        for _ in range(per):
            key += 1
            ops.append(["add", dg.doc(key=key, sparse_p=0.15)])
        m = wrng.choice(("none", "none", "none", "optimize", "custom"))
        arg = {"merge": m}
        if m == "custom":
            arg["mask"] = wrng.randrange(1, 256)
        ops.append(["commit", arg])
    rec = _hist.make_record(ID, seed, cfg, ops)
    qr = random.Random("%s/queries" % seed)
    rec["queries"] = ([Q.gen_query(qr, cfg, depth=qr.choice((1, 2, 2, 3))) for _ in range(5)]
                      + [Q.gen_shaped_query(qr, cfg) for _ in range(3)])
    if dg.drift is not None:
        # queries over the words that ran out: a two-clause Or with a branch that is exhausted early,
        # under an intersection / optional / union parent
        tf = [f for f in cfg.fields if f in ("t", "tc", "tb")]
        for _ in range(3):
            dead = ["term", drng.choice(tf), drng.choice(dg.drift[0])]
            t1 = ["term", drng.choice(tf), drng.choice(cfg.vocab)]
            t2 = ["term", drng.choice(tf), drng.choice(cfg.vocab)]
            t3 = ["term", drng.choice(tf), drng.choice(cfg.vocab)]
            rec["queries"].append(drng.choice((
                ["and", [["or", [dead, t1]], t2]],
                ["and", [t2, ["or", [t1, dead]]]],
                ["andmaybe", t2, ["or", [dead, t1]]],
                ["or", [["or", [dead, t1]], ["and", [t2, t3]]]],
                ["andmaybe", ["or", [dead, t1]], t2],
            )))
    w = mrng.choice(WEIGHTINGS)
    wspec = [w]
    if w == "bm25f_params":
        wspec = [w, mrng.choice((0.0, 0.3, 0.75, 1.0)), mrng.choice((0.5, 1.2, 2.0))]
    elif w == "bm25f_fieldb":
        wspec = [w, 0.75, 1.2, mrng.choice((0.0, 0.5, 1.0))]
    elif w == "pl2":
        wspec = [w, mrng.choice((0.5, 1.0, 3.0))]
    rec["weighting"] = wspec
    rec["replace"] = mrng.choice((1, 2, 10, 10))
    # 0 = the collector never rewrites the matcher tree (exhausted branches stay in it), 50 = rarely
    rec["replace"] = random.Random("%s/replace" % seed).choice((rec["replace"], rec["replace"], 0, 50))
    rec["extras"] = mrng.choice(("none", "none", "filter", "mask", "terms"))
    rec["filterq"] = Q.gen_query(qr, cfg, depth=1, simple=True)
    # collapsing (statement: "with and without filter/mask/collapse/terms recording"): the limited collapsed
    # search must be the first k entries of the unlimited collapsed search
    xr = random.Random("%s/collapse" % seed)
    if "n" in cfg.fields and xr.random() < 0.25:
        rec["extras"] = "collapse"
        rec["collapse_limit"] = xr.choice((1, 1, 2, 3))
    return rec


KS = (1, 2, 3, 5, 10)


class neutralise_unscaled_boost(object):
    """Triage aid for known finding K-C05-unscaled-boost: run with
    WrappingMatcher.replace() dividing the threshold by the boost (the sound
    behaviour, which the suite's test_replacements forbids). If a wrong
    top-N disappears under this neutralisation - and only then - it is that
    finding and not something new."""

    def __enter__(self):
        from whoosh.matching import wrappers
        self.cls = wrappers.WrappingMatcher
        self.orig = self.cls.__dict__["replace"]

        def replace(m, minquality=0):
            if minquality and m.boost > 0:
                minquality = minquality / m.boost
            else:
                minquality = 0
            r = m.child.replace(minquality)
            if r is not m.child:
                return m._replacement(r)
            return m
        self.cls.replace = replace
        return self

    def __exit__(self, *a):
        self.cls.replace = self.orig


def has_boost_above_one(spec):
    if spec[0] == "boost" and spec[2] > 1:
        return True
    for x in spec[1:]:
        if isinstance(x, list):
            if x and isinstance(x[0], str) and x[0] in Q._ALL_KINDS:
                if has_boost_above_one(x):
                    return True
            else:
                for y in x:
                    if isinstance(y, list) and y and isinstance(y[0], str) and y[0] in Q._ALL_KINDS and has_boost_above_one(y):
                        return True
    return False


def rank_ok(top):
    for i in range(len(top) - 1):
        (s1, d1), (s2, d2) = top[i], top[i + 1]
        if s1 < s2 or (s1 == s2 and d1 > d2):
            return i
    return None


def close(a, b):
    return abs(a - b) <= 1e-9 * max(1.0, abs(a), abs(b))


def check_topn(s, ix, record, counters):
    from whoosh import collectors
    weighting = make_weighting(record["weighting"])
    mi = s.model
    try:
        srch = ix.searcher(weighting=weighting)
    except (SimAbort, SimKilled, HarnessError):
        raise
    except Exception as e:  # noqa
        raise Violation("search_raised", "searcher(weighting=%s) raised %s: %s" % (record["weighting"], type(e).__name__, e),
                        sig="search_raised:" + exc_sig(e))
    try:
        extras = {}
        if record.get("extras") == "filter":
            extras["filter"] = Q.build(record["filterq"], mi.schema)
        elif record.get("extras") == "mask":
            extras["mask"] = Q.build(record["filterq"], mi.schema)
        elif record.get("extras") == "terms":
            extras["terms"] = True
        elif record.get("extras") == "collapse":
            extras["collapse"] = "n"
            extras["collapse_limit"] = record.get("collapse_limit", 1)
        for spec in record["queries"]:
            q = Q.build(spec, mi.schema)
            desc = "%s, weighting %s, extras %s" % (Q.show(spec), record["weighting"], record.get("extras"))

            def run(limit):
                try:
                    if limit is None:
                        return srch.search(q, limit=None, **extras)
                    c = srch.collector(limit=limit, **extras)
                    top = c
                    while not isinstance(top, collectors.TopCollector) and hasattr(top, "child"):
                        top = top.child
                    if isinstance(top, collectors.TopCollector):
                        top.replace = record.get("replace", 10)
                    srch.search_with_collector(q, c)
                    r = c.results()
                    if isinstance(top, collectors.TopCollector):
                        counters["skipped"] += top.skipped_times
                        counters["replaced"] += top.replaced_times
                        if getattr(top, "pruned", False):
                            counters["pruned"] += 1
                    return r
                except (SimAbort, SimKilled, HarnessError):
                    raise
                except Exception as e:  # noqa
                    raise Violation("search_raised", "%s: search(limit=%s) raised %s: %s" % (desc, limit, type(e).__name__, e),
                                    sig="search_raised:%s:%s" % ("unlimited" if limit is None else "limited", exc_sig(e)))
            full = run(None)
            ranking = list(full.top_n)
            bad = rank_ok(ranking)
            if bad is not None:
                raise Violation("exhaustive_ranking_ordered", "%s: exhaustive ranking not ordered by (descending score, ascending document) at position %d: %s"
                                % (desc, bad, ranking[max(0, bad - 1):bad + 3]), sig="exhaustive_ranking_order")
            total = len(ranking)
            if total:
                counters["nonempty"] += 1
            for k in KS:
                counters["evals"] += 1
                r = run(k)
                top = list(r.top_n)
                exp = ranking[:k]
                if len(top) != len(exp):
                    raise Violation("topn_is_prefix", "%s: limit=%d returned %d hits, exhaustive ranking has %d" % (desc, k, len(top), total),
                                    sig="topn:length")
                for i, ((sc, dn), (esc, edn)) in enumerate(zip(top, exp)):
                    if dn != edn or not close(sc, esc):
                        if has_boost_above_one(spec):
                            with neutralise_unscaled_boost():
                                top2 = list(run(k).top_n)
                            if len(top2) == len(exp) and all(d1 == d2 and close(s1, s2) for (s1, d1), (s2, d2) in zip(top2, exp)):
                                s.soft(Violation("topn_is_prefix", "%s: limit=%d differs from the exhaustive prefix (%s vs %s) and agrees once WrappingMatcher.replace() scales its threshold by the boost"
                                                 % (desc, k, top[:4], exp[:4]), sig="topn:unscaled_boost_in_replace"))
                                break
                        raise Violation("topn_is_prefix", "%s: limit=%d position %d is document %d (score %r); the exhaustive ranking has document %d (score %r) there. limited=%s exhaustive prefix=%s"
                                        % (desc, k, i, dn, sc, edn, esc, top[:6], exp[:6]),
                                        sig="topn:winner" if dn != edn else "topn:score")
                n = len(r)
                if record.get("extras") == "collapse":
                    continue    # what len() counts under collapsing is not stated anywhere: not judged
                if n != total:
                    raise Violation("len_results_exact", "%s: limit=%d: len(results)=%d, exhaustive search matched %d" % (desc, k, n, total),
                                    sig="len_results:limit")
    finally:
        srch.close()


def make_hooks(s, record):
    counters = {"evals": 0, "nonempty": 0, "skipped": 0, "replaced": 0, "pruned": 0}

    def after_commit(actor, probe_only=False):
        s.count("probes")

    def finish(actor):
        if actor.ix is not None:
            check_topn(s, actor.ix, record, counters)
            r = actor.ix.reader()
            try:
                s.stats["segments"] = len(list(r.leaf_readers()))
                s.stats["with_deletions"] = 1 if r.has_deletions() else 0
                s.stats["documents"] = r.doc_count()
            finally:
                r.close()
        s.stats["topn_comparisons"] = counters["evals"]
        s.stats["queries_with_matches"] = counters["nonempty"]
        s.stats["block_skips"] = counters["skipped"]
        s.stats["matcher_replacements"] = counters["replaced"]
        s.stats["searches_pruned"] = counters["pruned"]
        s.stats["weighting_" + record["weighting"][0]] = 1
    return {"after_commit": after_commit, "finish": finish}


def execute(record, trace=False):
    res = _hist.execute_hist(record, make_hooks, trace=trace)
    if res["verdict"] == "ok":
        st = res["stats"]
        res["nontrivial"] = bool(res["nontrivial"] and st.get("searches_pruned", 0) > 0)
        if res.get("sample"):
            res["sample"] = {"seed": record["seed"], "documents": st.get("documents"), "segments": st.get("segments"),
                             "blocklimit": record["config"]["blocklimit"], "weighting": record["weighting"],
                             "extras": record.get("extras"), "queries": [Q.show(q) for q in record["queries"][:4]],
                             "block_skips": st.get("block_skips"), "searches_pruned": st.get("searches_pruned")}
    return res


def shrink(record, fails, budget):
    cur = copy.deepcopy(record)
    for q in record["queries"]:
        t = copy.deepcopy(cur)
        t["queries"] = [q]
        budget[0] -= 1
        if fails(t):
            cur = t
            break
    if cur.get("extras") != "none":
        t = copy.deepcopy(cur)
        t["extras"] = "none"
        budget[0] -= 1
        if fails(t):
            cur = t
    changed = True
    while changed and budget[0] > 0 and cur["queries"]:
        changed = False
        for cand in subtrees(cur["queries"][0]):
            t = copy.deepcopy(cur)
            t["queries"] = [cand]
            budget[0] -= 1
            if fails(t):
                cur = t
                changed = True
                break
            if budget[0] <= 0:
                break
    cur = _hist.shrink_hist(cur, fails, budget)
    return cur


def extra_coverage(results):
    return {"evaluations": sum((r.get("stats") or {}).get("topn_comparisons", 0) for r in results) or len(results),
            "runs": len(results)}
