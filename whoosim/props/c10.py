"""C10 - postings, term statistics and vectors read back exactly what was indexed."""

import random

from whoosim import model as M
from whoosim.props import _hist
from whoosim.session import Violation, compare_reader, exc_sig
from whoosim.kernel import SimAbort, SimKilled, HarnessError
from whoosim import dump as D

ID = "C10"
LEVEL = "exploration"
REAL, STUBS = _hist.REAL, _hist.STUBS
RULE = ("per-run seed -> codec knobs (block limit 1..16/128, compression 0..9, inline limit 1/2/4, sort-pool limit small enough "
        "to spill to run files, compound/loose, mmap on/off, write-buffer size) + a history of 1-5 committing transactions "
        "with merges (posting lists get re-blocked) and restarts; after every commit every posting list, term-info record and "
        "vector is read back and compared with the model. Non-trivial = >=1 commit and >=1 full read-back; distinct = "
        "distinct event-log SHA-256."
        ' 15% of runs write through MpWriter (merged mode).')
ASSUMPTIONS = ["expected postings = what field.index()/format.word_values produced for the document (the property's own definition); analysis is trusted",
               "term statistics are compared with the aggregates of the list only on readers without deletions (term-info records are physical: they still count deleted documents until a merge)",
               "the plain-text codec is write-only debugging output (no term-info reader round trip through the storage layer) and is not covered; the in-memory codec is covered through a BufferedWriter phase in 30% of runs"]
TIERS = {"quick": {"runs": 1200, "time_budget": 100, "audit_every": 40},
         "thorough": {"runs": 50000, "time_budget": 1500, "audit_every": 100}}


def generate(seed, tier):
    r = random.Random("%s/mode" % seed)
    want = [n for n in ("tc", "tv", "tb", "kw", "ng", "n", "b") if r.random() < 0.5] + (["*_dyn"] if r.random() < 0.3 else []) + [n for n in ("tx", "txb") if r.random() < 0.3]
    mem = r.random() < 0.3
    empty_base = mem and r.random() < 0.5
    # 15% of the runs write through the multi-process writer (merged mode): the parent re-blocks the
    # sub-writers' posting runs and recomputes every term's statistics from their per-document data.
    # (cancel and failing with-blocks included since MpWriter.cancel() was repaired, eb9bff1)
    pr = random.Random("%s/mp" % seed)
    mp = {"procs": pr.randint(2, 3), "batchsize": pr.randint(1, 5)} if pr.random() < 0.15 else None
    rec = _hist.generate_hist(
        ID, seed,
        gen_kwargs={"ntx": (0, 0) if empty_base else (1, 5), "maxops": 8, "p_iofault": 0.0,
                    "p_raise": 0.02, "p_cancel": 0.03,
                    "p_restart": 0.3, "p_delete": r.choice((0.0, 0.0, 0.2)),
                    "merges": ("none", "none", "default", "optimize", "custom")},
        cfg_kwargs={"want": want})
    if mem:
        # a last batch of documents that sits in the in-memory codec (BufferedWriter)
        # while it is read back, and is then flushed to disk
        from whoosim.session import cfg_from_record
        from whoosim.workload import DocGen
        mr = random.Random("%s/mem" % seed)
        dg = DocGen(cfg_from_record(rec["config"]), mr, nkeys=12)
        dg.next_uid = 200000
        rec["mem_docs"] = [dg.doc(sparse_p=0.2) for _ in range(mr.randint(2, 12))]
    if mp:
        rec["mp"] = mp
    return rec


def check_stats(reader, schema, got, where):
    """term_info of every term equals the true aggregates of its list."""
    stats = got["_stats"]
    num2uid = got["_num2uid"]
    uid2num = dict((u, n) for n, u in num2uid.items())
    for (f, tb), st in stats.items():
        plist = got["terms"].get((f, tb))
        if not plist:
            continue
        df, tw, minl, maxl, maxw, minid, maxid = st
        nums = sorted(uid2num[u] for u in plist)
        ws = [plist[u][1] for u in plist]
        if df != len(plist):
            raise Violation("term_stats", "%s: term_info(%s,%r).doc_frequency()=%s, list has %d postings" % (where, f, tb, df, len(plist)),
                            sig="term_stats:doc_frequency")
        sw = sum(ws)
        if abs(tw - sw) > 1e-5 * max(1.0, abs(sw)):
            raise Violation("term_stats", "%s: term_info(%s,%r).weight()=%r, sum of posting weights %r" % (where, f, tb, tw, sw),
                            sig="term_stats:weight")
        if abs(maxw - max(ws)) > 1e-6 * max(1.0, max(ws)):
            raise Violation("term_stats", "%s: term_info(%s,%r).max_weight()=%r, max posting weight %r" % (where, f, tb, maxw, max(ws)),
                            sig="term_stats:max_weight")
        if minid != nums[0] or maxid != nums[-1]:
            raise Violation("term_stats", "%s: term_info(%s,%r) min_id/max_id=%s/%s, list spans %s..%s" % (where, f, tb, minid, maxid, nums[0], nums[-1]),
                            sig="term_stats:min_max_id")
        if schema[f].scorable:
            ls = [reader.doc_field_length(n, f) for n in nums]
            if minl != min(ls) or maxl != max(ls):
                raise Violation("term_stats", "%s: term_info(%s,%r) min/max_length=%s/%s, field lengths of its documents span %s..%s"
                                % (where, f, tb, minl, maxl, min(ls), max(ls)), sig="term_stats:min_max_length")


def make_hooks(s, record):
    def after_commit(actor, probe_only=False):
        mi = s.model
        s.count("probes")
        try:
            r = actor.ix.reader()
        except (SimAbort, SimKilled, HarnessError):
            raise
        except Exception as e:  # noqa
            raise Violation("reader_open_raised", "%s: %s" % (type(e).__name__, e), sig="reader_open_raised:" + exc_sig(e))
        try:
            res = compare_reader(r, mi.docs, mi.schema, mi.field_names,
                                 parts=("docs", "terms", "vectors", "lengths"))
            if res:
                clause = {"docs": "postings_exact", "terms": "postings_exact", "vectors": "vector_is_transposed_postings",
                          "lengths": "postings_exact"}[res[0]]
                raise Violation(clause, "generation %d: %s" % (mi.generation, res[1]), sig="%s:%s" % (clause, res[0]))
            if not r.has_deletions():
                try:
                    got = D.real_dump(r, mi.schema, with_stats=True, parts=("terms",))
                except D.DumpError as e:
                    raise Violation("read_raised", str(e), sig="read_raised:%s:%s" % (e.where.split("(")[0], exc_sig(e.exc)))
                check_stats(r, mi.schema, got, "generation %d" % mi.generation)
                s.count("term_stats_checked", len(got["_stats"]))
            # blocks actually crossed?
            for (f, tb), pl in ():
                pass
        finally:
            r.close()
        mx = max([len(set(d.uid for d in mi.docs if tb in d.postings.get(f, {})))
                  for f in ("t",) for tb in set(t for d in mi.docs for t in d.postings.get("t", {}))] or [0])
        if mx > s.cfg.blocklimit:
            s.count("multi_block_lists_seen")

    def memory_phase(actor):
        """The in-memory codec: documents held by a BufferedWriter are read back
        (alone and combined with the committed segments) before they reach the disk."""
        from whoosh.writing import BufferedWriter
        mi = s.model
        n0 = len(mi.docs)
        try:
            bw = BufferedWriter(actor.ix, period=None, limit=10000, writerargs=dict(s.cfg.writer_kwargs()))
        except (SimAbort, SimKilled, HarnessError):
            raise
        except Exception as e:  # noqa
            raise Violation("read_raised", "BufferedWriter() raised %s: %s" % (type(e).__name__, e), sig="read_raised:BufferedWriter:" + exc_sig(e))
        try:
            mw = mi.writer()
            try:
                for d in record["mem_docs"]:
                    bw.add_document(**d)
                    mw.add(d)
            except (SimAbort, SimKilled, HarnessError):
                raise
            except Exception as e:  # noqa
                raise Violation("read_raised", "BufferedWriter.add_document raised %s: %s" % (type(e).__name__, e), sig="read_raised:add_document:" + exc_sig(e))
            mw.commit()
            memdocs = mi.docs[n0:]
            for label, rd, docs in (("in-memory segment", bw._get_ram_reader(), memdocs),
                                    ("committed + in-memory segments", bw.reader(), mi.docs)):
                try:
                    res = compare_reader(rd, docs, mi.schema, mi.field_names, parts=("docs", "terms", "columns"))
                    if res:
                        raise Violation("postings_exact", "%s: %s" % (label, res[1]), sig="postings_exact:memory:%s" % res[0])
                    if not rd.has_deletions():
                        try:
                            got = D.real_dump(rd, mi.schema, with_stats=True, parts=("terms",))
                        except D.DumpError as e:
                            raise Violation("read_raised", str(e), sig="read_raised:%s:%s" % (e.where.split("(")[0], exc_sig(e.exc)))
                        check_stats(rd, mi.schema, got, label)
                        s.count("memory_term_stats_checked", len(got["_stats"]))
                finally:
                    rd.close()
            s.count("memory_phases")
        finally:
            try:
                bw.close()
            except (SimAbort, SimKilled, HarnessError):
                raise
            except Exception as e:  # noqa
                raise Violation("read_raised", "BufferedWriter.close raised %s: %s" % (type(e).__name__, e), sig="read_raised:close:" + exc_sig(e))
        s.count("commits")

    def finish(actor):
        actor.ix = None
        s.new_process("final")
        if record.get("mem_docs"):
            actor.ensure_index()
            memory_phase(actor)
            actor.ix = None
            s.new_process("final2")
        if s.index_exists():
            actor.ensure_index()
            after_commit(actor)

    hooks = {"after_commit": after_commit, "finish": finish}
    if record.get("mp"):
        def factory(ix, kw):
            from whoosh.multiproc import MpWriter
            return MpWriter(ix, procs=record["mp"]["procs"], batchsize=record["mp"]["batchsize"], **s.cfg.writer_kwargs())
        hooks["writer_factory"] = factory
    return hooks


def execute(record, trace=False):
    return _hist.execute_hist(record, make_hooks, trace=trace)


def shrink(record, fails, budget):
    return _hist.shrink_hist(record, fails, budget)
