"""C04 - one writer at a time; no committed update is ever lost."""

import copy
import random

from whoosim import engine
from whoosim.kernel import HarnessError, SimAbort, SimKilled
from whoosim.props import _hist
from whoosim.props.c03 import shrink_sched
from whoosim.sched import SchedSession, SchedWriter
from whoosim.session import Violation, cfg_from_record, compare_reader, exc_sig
from whoosim.workload import DocGen, RunConfig

ID = "C04"
LEVEL = "exploration"
REAL, STUBS = _hist.REAL, _hist.STUBS
RULE = ("per-run seed -> 2-4 writer actors (simulated threads and/or processes; FileStorage with flock, or one shared "
        "RamStorage) each running 1-4 transactions: ix.writer(timeout in {0,0.3,2,30}, delay in {0.05,0.1}), 1-3 uniquely keyed "
        "adds and maybe a delete of a committed key, ending in commit / cancel / exception in the with-block / one-shot "
        "injected EIO|ENOSPC in the body; in 35% of the runs 1-2 more actors drive the AsyncWriter (buffers its calls and replays them "
        "from its own thread once it gets the lock) or BufferedWriter (holds the lock from construction to close()) front-ends, "
        "with pauses between their calls. Every storage operation, lock poll and sleep is a scheduling point under the seeded "
        "scheduler (uniform / sticky); the simulated clock makes timeouts race against work that costs time. Checked over the "
        "recorded history: mutual exclusion by effects, LockError only while another writer holds the lock and not before the "
        "timeout, no lost update, generation == number of commits, no deadlock and no live-lock (no operation needs more than 200000 "
        "scheduling points), no library thread dies, the lock is polled and never waited on. Non-trivial = >=2 actors, >=1 "
        "commit and >=1 context switch; distinct = distinct event-log SHA-256."
        ' Line-level pre-emption in 30% of runs; threads may share one Index object; AsyncWriter writerargs may hold a timeout.'
        ' Later additions: multi-process writers, a BufferedWriter that flushes in mid-life, applications forking a helper while a writer is open (descriptor inheritance), with-blocks whose commit fails in its clean-up (EBUSY on rmdir); clause: LockError only while another writer is open.')
ASSUMPTIONS = ["a writer's critical section is measured by its effects: from ix.writer() returning to its last mutating storage event, so the check does not depend on the lock model",
               "LockError timing is judged on the simulated clock (every storage operation costs 0.05-2 ms of simulated time)",
               "unique keys per (actor, transaction) make every committed addition attributable"]
TIERS = {"quick": {"runs": 900, "time_budget": 100, "audit_every": 40},
         "thorough": {"runs": 40000, "time_budget": 1500, "audit_every": 100}}


def generate(seed, tier):
    from whoosim import seams
    seams.load_whoosh()
    crng = random.Random("%s/config" % seed)
    wrng = random.Random("%s/workload" % seed)
    mrng = random.Random("%s/mode" % seed)
    cfg = RunConfig(crng, allow=["kw", "n"], force={"long_text_p": 0.0, "limitmb": 128})
    dg = DocGen(cfg, wrng, nkeys=10 ** 6)
    storage_kind = "ram" if mrng.random() < 0.2 else "file"
    nw = mrng.randint(2, 4)
    actors = []
    committed_keys = []
    key = [0]
    for wi in range(nw):
        txs = []
        for ti in range(mrng.randint(1, 4)):
            body = []
            for _ in range(wrng.randint(1, 3)):
                key[0] += 1
                body.append(["add", dg.doc(key=key[0])])
                committed_keys.append(key[0])
            if wrng.random() < 0.3 and len(committed_keys) > 3:
                body.append(["del_term", "k", u"k%03d" % wrng.choice(committed_keys)])
            if wrng.random() < 0.08:
                body.insert(wrng.randrange(len(body) + 1), ["nested_attempt"])
            fk = random.Random("%s/fork/%d/%d" % (seed, wi, ti))
            if storage_kind == "file" and fk.random() < 0.1:
                # the application forks a helper process while its writer is open (a worker pool, a
                # subprocess): the helper inherits the descriptor table and lives on for a while
                body.insert(fk.randrange(len(body) + 1), ["app_fork", fk.choice((0.05, 0.5, 3.0))])
            c = wrng.random()
            if c < 0.7:
                end = ["commit", {"merge": wrng.choice(("none", "none", "default", "optimize"))}]
            elif c < 0.8:
                end = ["cancel"]
            elif c < 0.9:
                end = ["raise"]
            else:
                body.insert(wrng.randrange(len(body)), ["arm_iofault", {"skip": wrng.randint(0, 3), "errno": wrng.choice(("EIO", "ENOSPC"))}])
                end = ["raise_if_not_failed"]
            fr = random.Random("%s/cfault/%d/%d" % (seed, wi, ti))
            if end[0] == "commit" and storage_kind == "file" and fr.random() < 0.06:
                # the with-block's commit publishes its generation and then fails in its clean-up (the scratch
                # directory cannot be removed): the commit counts, and the lock must come back all the same
                end = ["commit_cleanup_fails", {"merge": "none"}]
            txs.append({"timeout": wrng.choice((0.0, 0.3, 2.0, 30.0)), "delay": wrng.choice((0.05, 0.1)),
                        "body": body, "end": end,
                        "think": (wrng.choice((0.05, 0.3, 1.0, 3.0)) if wrng.random() < 0.35 else 0)})
        app_plan = [({"open": mrng.randint(0, 3), "close": mrng.randint(0, 2)} if mrng.random() < 0.5 else None) for _ in txs]
        # 20% of the plain writers on file storage are multi-process writers (ix.writer(procs=N)): their
        # sub-processes are simulated processes of their own fed through queues and job files
        xr = random.Random("%s/mp/%d" % (seed, wi))
        mp = ({"procs": xr.randint(2, 3), "batchsize": xr.randint(1, 3)} if (storage_kind == "file" and xr.random() < 0.2) else None)
        actors.append({"kind": "writer", "name": "W%d" % wi, "txs": txs,
                       "own_process": mrng.random() < 0.5,
                       "keep_errors": mrng.choice(("none", "none", "next", "end")),
                       "app_plan": app_plan, "mp": mp})
    # the AsyncWriter and BufferedWriter front-ends race the plain writers in 35% of the runs
    if mrng.random() < 0.35:
        for fi in range(mrng.randint(1, 2)):
            kind = mrng.choice(("async", "async", "buffered"))
            if kind == "buffered" and storage_kind == "file" and random.Random("%s/bufflush/%d" % (seed, fi)).random() < 0.6:
                kind = "bufflush"   # small limit: it flushes, gives the lock back and takes it again in mid-life
            txs = []
            for ti in range(mrng.randint(1, 3)):
                body = []
                for _ in range(wrng.randint(1, 3)):
                    key[0] += 1
                    body.append(["add", dg.doc(key=key[0])])
                    committed_keys.append(key[0])
                    if wrng.random() < 0.3:
                        body.append(["sleep", wrng.choice((0.01, 0.1, 0.5))])
                txs.append({"timeout": wrng.choice((0.0, 0.3, 2.0, 30.0)), "delay": wrng.choice((0.05, 0.1)), "body": body})
            actors.append({"kind": kind, "name": "%s%d" % ("BF" if kind == "bufflush" else kind[0].upper(), fi), "txs": txs,
                           "limit": random.Random("%s/buflimit/%d" % (seed, fi)).choice((1, 2, 3)),
                           "own_process": mrng.random() < 0.5,
                           # AsyncWriter hands writerargs to every ix.writer() call it makes, the first
                           # attempt and the replay thread's: a timeout among them is an ordinary choice
                           "wargs_timeout": random.Random("%s/wargs/%d" % (seed, fi)).choice((None, None, 0.0, 0.2))})
    policy = mrng.choice((["uniform"], ["sticky", 0.5], ["sticky", 0.9], ["sticky", 0.99],
                          ["pct", mrng.randint(1, 3), mrng.choice((300, 1500, 4000))],
                          ["pct", mrng.randint(1, 3), mrng.choice((300, 1500, 4000))]))
    # line-level pre-emption (races between two statements with no storage call in between) and one
    # Index object shared by the threads of a process ("stateless, share-able between threads")
    lrng = random.Random("%s/lines" % seed)
    lines = [lrng.choice((0.02, 0.1, 0.3)), lrng.choice((3, 10, 30))] if lrng.random() < 0.3 else None
    share_ix = lrng.random() < 0.4
    return {"prop": ID, "seed": seed, "config": cfg.describe(), "storage_kind": storage_kind,
            "actors": actors, "policy": policy, "schedule": None,
            "gc_tick": mrng.choice((0, 0, 0.03, 0.1)), "lines": lines, "share_ix": share_ix}


class FrontWriter(object):
    """An AsyncWriter or BufferedWriter racing the other writers. AsyncWriter never raises
    LockError: it buffers the calls and a helper thread replays them once it gets the lock.
    BufferedWriter takes the lock when it is constructed and keeps it until close()."""

    wargs_timeout = None

    def __init__(self, s, name, kind, txs, own_process=True):
        self.s = s
        self.name = name
        self.kind = kind
        self.txs = txs
        self.own_process = own_process
        self.violation = None
        self.attempts = []
        self.ix = None
        self.pending_commit = None
        self.committer = None

    def apply_pending_commit(self):
        pc = self.pending_commit
        if pc is not None:
            self.pending_commit = None
            pc.commit()
            self.s.commit_log.append((self.s.model.generation, self.name))
            self.committed_gen = self.s.model.generation

    def body(self):
        try:
            for tx in self.txs:
                self.run_tx(tx)
        except Violation as v:
            self.violation = v

    def _call(self, fn, what):
        try:
            return fn()
        except (SimAbort, SimKilled, HarnessError, Violation):
            raise
        except Exception as e:  # noqa
            raise Violation("frontend_raised", "%s: %s.%s raised %s: %s" % (self.name, self.kind, what, type(e).__name__, e),
                            sig="frontend_raised:%s:%s:%s" % (self.kind, what, exc_sig(e)))

    def run_tx(self, tx):
        from whoosh.index import LockError
        from whoosh.writing import AsyncWriter, BufferedWriter
        s = self.s
        k = s.k
        if self.ix is None:
            self.ix = s.actor_storage().open_index()
        kw = dict(s.cfg.writer_kwargs())
        k.event("step", "front.begin")
        a, t0 = k.seq, k.time()
        mw = s.model.writer()
        me = k.current
        self.committed_gen = None
        if self.kind == "async":
            if self.wargs_timeout is not None:
                kw["timeout"] = self.wargs_timeout
            w = self._call(lambda: AsyncWriter(self.ix, delay=tx.get("delay", 0.1), writerargs=kw), "__init__")
            passthrough = w.writer is not None
            s.count("async_passthrough" if passthrough else "async_buffered")
            s.first_mut.pop(me.id, None)
        else:
            kw["timeout"] = tx.get("timeout", 0.0)
            kw["delay"] = tx.get("delay", 0.1)
            att = {"actor": self.name, "a": a, "t0": t0, "timeout": kw["timeout"], "delay": kw["delay"]}
            self.attempts.append(att)
            try:
                w = BufferedWriter(self.ix, period=None, limit=1000, writerargs=kw)
            except LockError:
                att.update(outcome="LockError", b=k.seq, t1=k.time())
                s.count("lockerror")
                return
            except (SimAbort, SimKilled, HarnessError):
                raise
            except Exception as e:  # noqa
                raise Violation("writer_open_raised", "BufferedWriter(): %s: %s" % (type(e).__name__, e), sig="writer_open_raised:" + exc_sig(e))
            att.update(outcome="acquired", b=k.seq, t1=k.time())
            passthrough = True
        acquired_at = k.seq
        for op in tx["body"]:
            k.event("step", "front." + op[0])
            if op[0] == "add":
                self._call(lambda: w.add_document(**op[1]), "add_document")
                mw.add(op[1])
            elif op[0] == "del_term":
                self._call(lambda: w.delete_by_term(op[1], op[2]), "delete_by_term")
                mw.delete_by_term(op[1], op[2])
            elif op[0] == "sleep":
                k.sleep(op[1])
        self.pending_commit = mw
        me.actor = self
        if self.kind == "async":
            self._call(lambda: w.commit(merge=False), "commit")
            thr = getattr(w, "_task", None)
            if thr is not None:
                # the helper thread does the commit: the model's commit point is its TOC rename
                thr.actor = self
                k.block_until(lambda: thr.state == "done", desc="async join")
                if thr.exc is not None and not isinstance(thr.exc, (SimAbort, SimKilled)):
                    raise Violation("frontend_raised", "%s: AsyncWriter's thread died: %s" % (self.name, thr.exc),
                                    sig="frontend_raised:async:thread:" + exc_sig(thr.exc))
            committer = thr if thr is not None else me
        else:
            self._call(lambda: w.close(), "close")
            committer = me
        self.apply_pending_commit()   # (a commit without a TOC rename would show up as a lost update)
        first = acquired_at if (passthrough and self.kind != "async") else s.first_mut.get(committer.id, k.seq)
        if self.kind == "async" and passthrough:
            first = acquired_at
        last = s.last_mut.get(committer.id, first)
        hold = [first, k.seq, self.committed_gen, self.name, t0, max(last, first), k.time(), a]
        s.all_holds.append(hold)
        if self.committed_gen is not None:
            s.ret.setdefault(self.committed_gen, k.seq)
        s.count("commits")
        s.count("front_commits_" + self.kind)


class FlushingBuffered(object):
    """A BufferedWriter with a small limit among the racing writers: every flush commits, gives the
    write lock back and takes it again. Another writer may get in between; the re-open then raises
    LockError out of the call that caused the flush - a legitimate outcome, judged like every other
    LockError. The application keeps the object (more adds, then close(), retried after a pause until
    it succeeds). Whatever add_document() accepted must be in the index once close() has returned."""

    def __init__(self, s, name, txs, limit, own_process=True):
        self.s = s
        self.name = name
        self.kind = "bufflush"
        self.txs = txs
        self.limit = limit
        self.own_process = own_process
        self.violation = None
        self.attempts = []
        self.ix = None
        self.mw = None

    def apply_pending_commit(self):
        # called at every TOC rename of this task: one flush = one commit of what was buffered
        if self.mw is not None:
            self.mw.commit()
            self.s.commit_log.append((self.s.model.generation, self.name))
            self.s.ret.setdefault(self.s.model.generation, self.s.k.seq)
            self.mw = self.s.model.writer()
            self.s.count("bufflush_flushes")

    def body(self):
        try:
            for tx in self.txs:
                self.run_tx(tx)
        except Violation as v:
            self.violation = v

    def _guard(self, fn, what, tx):
        """Returns True if the call went through, False if it raised a (recorded) LockError."""
        from whoosh.index import LockError
        k = self.s.k
        a, t0 = k.seq, k.time()
        try:
            fn()
            return True
        except LockError:
            self.attempts.append({"actor": self.name, "a": a, "b": k.seq, "t0": t0, "t1": k.time(), "outcome": "LockError",
                                  "timeout": tx.get("timeout", 0.0), "delay": tx.get("delay", 0.1)})
            self.s.count("bufflush_lockerror_in_" + what)
            return False
        except (SimAbort, SimKilled, HarnessError, Violation):
            raise
        except Exception as e:  # noqa
            raise Violation("frontend_raised", "%s: BufferedWriter.%s raised %s: %s" % (self.name, what, type(e).__name__, e),
                            sig="frontend_raised:bufflush:%s:%s" % (what, exc_sig(e)))

    def run_tx(self, tx):
        from whoosh.writing import BufferedWriter
        s = self.s
        k = s.k
        if self.ix is None:
            self.ix = s.actor_storage().open_index()
        kw = dict(s.cfg.writer_kwargs())
        kw["timeout"] = tx.get("timeout", 0.0)
        kw["delay"] = tx.get("delay", 0.1)
        k.event("step", "bufflush.begin")
        a, t0 = k.seq, k.time()
        k.current.actor = self
        self.mw = None
        box = {}
        if not self._guard(lambda: box.setdefault("w", BufferedWriter(self.ix, period=None, limit=self.limit, writerargs=kw)), "__init__", tx):
            return
        w = box["w"]
        self.attempts.append({"actor": self.name, "a": a, "b": k.seq, "t0": t0, "t1": k.time(), "outcome": "acquired",
                              "timeout": kw["timeout"], "delay": kw["delay"]})
        hold = [k.seq, None, None, self.name, t0, k.seq, None, a]
        s.all_holds.append(hold)
        self.mw = s.model.writer()
        for op in tx["body"]:
            k.event("step", "bufflush." + op[0])
            if op[0] == "add":
                # the flush this call may cause commits this document too: the model has it first
                self.mw.add(op[1])
                self._guard(lambda: w.add_document(**op[1]), "add_document", tx)
            elif op[0] == "sleep":
                k.sleep(op[1])
        closed = False
        for attempt in range(60):
            k.event("step", "bufflush.close")
            if self._guard(lambda: w.close(), "close", tx):
                closed = True
                break
            k.sleep(0.5)
        hold[1] = k.seq
        hold[6] = k.time()
        if not closed:
            # the lock never came back within 30 simulated seconds: what is still buffered is legitimately unsaved
            self.mw.cancel()
            self.mw = None
            s.count("bufflush_gave_up")
            return
        # close() returned: nothing may be left unsaved (documents still pending in the model would
        # mean close() committed nothing - they are applied so that the final comparison shows the loss)
        mw, self.mw = self.mw, None
        if mw is not None and mw.adds:
            mw.commit()
            s.commit_log.append((s.model.generation, self.name))
        elif mw is not None:
            mw.cancel()
        s.count("commits")
        s.count("front_commits_bufflush")


class AppWriter(SchedWriter):
    """A plain writer inside an application that has files of its own open: before a
    transaction it may open a few unrelated files and it closes them some transactions later,
    so descriptor numbers are not the neat 0,1,2.. of a process that only ever writes one index."""

    app_plan = ()

    def run_tx(self, tx):
        from whoosim import simos as SO
        s = self.s
        i = self.txs.index(tx) if tx in self.txs else 0
        plan = self.app_plan[i] if i < len(self.app_plan) else None
        if plan:
            proc = s.k.current.proc
            for _ in range(plan.get("close", 0)):
                if self.app_fds:
                    fd = self.app_fds.pop(0)
                    try:
                        s.os._close_fd(proc, fd)
                    except OSError as e:
                        # nobody but the application knows this descriptor: the library closed a number it did not own
                        raise Violation("lockerror_without_side_effects", "%s: the application's own descriptor %d was closed behind its back (%s)"
                                        % (self.name, fd, e), sig="foreign_descriptor_closed")
            for j in range(plan.get("open", 0)):
                fd, _ = s.os._open_fd("/app_%s_%d_%d.log" % (self.name, i, j), SO.O_CREAT | SO.O_RDWR)
                self.app_fds.append(fd)
        if tx.get("think"):
            s.k.sleep(tx["think"])      # the application does something else for a while
        return SchedWriter.run_tx(self, tx)


def _app_step(self, op):
    if op[0] == "app_fork":
        s = self.s
        k = s.k
        k.event("step", "app_fork")
        parent = k.current.proc
        child = k.new_proc("helper")
        child.cwd = parent.cwd
        s.os.fork_fds(parent, child)
        life = op[1]

        def helper():
            k.sleep(life)
            s.os.exit_proc(child)
        k.spawn(helper, "helper:%s" % self.name, proc=child)
        s.count("app_forks")
        return
    if op[0] == "commit_cleanup_fails":
        import errno as _e
        s = self.s
        k = s.k
        w, mw = self.w, self.mw
        if w is None or self.failed_in_body is not None:
            return SchedWriter.step(self, ["commit", {"merge": "none"}] if self.failed_in_body is None else ["raise_if_not_failed"])
        k.event("step", "commit_cleanup_fails")
        task = k.current
        fired = {}

        def plan(kind, name):
            if kind != "rmdir" or k.current is not task:
                return None
            s.os.fail_plan = None
            fired["x"] = True
            s.count("iofault_fired_rmdir")
            e = OSError(_e.EBUSY, "injected EBUSY", name)
            e.injected = True
            return e
        s.os.fail_plan = plan
        self.in_commit = True
        self.pending_commit = (mw, False)
        try:
            # the end of "with ix.writer() as w:" without an exception in the body
            w.__exit__(None, None, None)
        except (SimAbort, SimKilled, HarnessError, Violation):
            raise
        except OSError as e:
            if not getattr(e, "injected", False):
                raise Violation("commit_raised", "commit raised %s: %s" % (type(e).__name__, e), sig="commit_raised:" + exc_sig(e))
            s.count("commit_failed_in_cleanup")
        except Exception as e:  # noqa
            raise Violation("commit_raised", "commit raised %s: %s" % (type(e).__name__, e), sig="commit_raised:" + exc_sig(e))
        finally:
            self.in_commit = False
            s.os.fail_plan = None
        self.apply_pending_commit()
        self.w = self.mw = None
        self.commits += 1
        self.last_outcome = "commit"
        self.last_commit_kind = "none"
        s.count("commits")
        return
    return SchedWriter.step(self, op)


AppWriter.step = _app_step


def _plain(s, a):
    w = AppWriter(s, a["name"], a["txs"], own_process=a.get("own_process", True))
    w.keep_errors = a.get("keep_errors", "none")
    w.app_plan = a.get("app_plan") or ()
    w.app_fds = []
    w.extra_writer_kwargs = dict(a.get("mp") or {})
    return w


def _front(s, a):
    if a["kind"] == "bufflush":
        return FlushingBuffered(s, a["name"], a["txs"], a.get("limit", 2), own_process=a.get("own_process", True))
    f = FrontWriter(s, a["name"], a["kind"], a["txs"], own_process=a.get("own_process", True))
    f.wargs_timeout = a.get("wargs_timeout")
    return f


def check_history(s, writers):
    holds = sorted(s.all_holds, key=lambda h: h[0])
    # mutual exclusion by effects
    for i, h in enumerate(holds):
        for g in holds[i + 1:]:
            if g[3] != h[3] and h[0] < g[0] <= (h[5] if h[5] is not None else h[0]):
                raise Violation("mutual_exclusion", "%s obtained a writer at event %d while %s was still writing (its writer opened at event %d, its last storage mutation is event %s)"
                                % (g[3], g[0], h[3], h[0], h[5]))
    # LockError legitimacy (lock holds as observed at the lock itself)
    lh = s.lock_holds
    for w in writers:
        for att in w.attempts:
            if att.get("outcome") == "nested_proceeded":
                raise Violation("second_attempt_fails", "%s: a second ix.writer(timeout=0) while its own writer was open returned a writer instead of raising LockError" % att["actor"])
            if att.get("outcome") != "LockError":
                continue
            a, b = att["a"], att["b"]
            others = [h for h in lh if (h[0] != att["actor"] or att.get("nested"))
                      and h[1] <= b and (h[3] is None or h[3] >= a)]
            if not others:
                raise Violation("lockerror_only_when_held", "%s: ix.writer(timeout=%s) over events [%d,%d] raised LockError while nobody else held the write lock"
                                % (att["actor"], att["timeout"], a, b))
            # ... and only while some other writer is open: the lock is given back by commit(), cancel()
            # and a failing with-block. A writer counts as open from the moment its ix.writer() call
            # began (it takes the lock inside that call) until its commit/cancel/__exit__ returned.
            open_others = [h for h in s.all_holds if (h[3] != att["actor"] or att.get("nested"))
                           and (h[7] if len(h) > 7 else h[0]) <= b and (h[1] is None or h[1] >= a)]
            if not open_others:
                raise Violation("lock_released", "%s: ix.writer(timeout=%s) over events [%d,%d] raised LockError although no other writer was open at any moment of the attempt (the lock outlived the writer that took it)"
                                % (att["actor"], att["timeout"], a, b), sig="lock_outlives_writer")
            el = att["t1"] - att["t0"]
            if el + 1e-9 < att["timeout"]:
                raise Violation("lockerror_after_timeout", "%s: LockError after %.4f simulated seconds, requested timeout %s"
                                % (att["actor"], el, att["timeout"]))
            s.count("lockerror_checked")
    # the write lock must be polled, never waited on: a blocking wait cannot honour a timeout
    if s.k.counters.get("writelock_blocking_wait"):
        raise Violation("lockerror_after_timeout", "a writer blocked on the write lock instead of polling it (%d blocking waits): the requested timeout cannot be honoured"
                        % s.k.counters["writelock_blocking_wait"], sig="writelock_blocking_wait")
    # generation counts commits, one by one
    ncommit = len(s.commit_log)
    gens = sorted(g for g, _ in s.commit_log)
    if gens != list(range(1, ncommit + 1)):
        raise Violation("generation_counts_commits", "successful commits carry generations %s (expected 1..%d)" % (gens, ncommit))


def final_checks(s, ix):
    from whoosh.index import LockError
    gen = ix.latest_generation()
    ncommit = len(s.commit_log)
    if gen != ncommit:
        raise Violation("generation_counts_commits", "latest_generation()=%s after %d successful commits" % (gen, ncommit))
    r = ix.reader()
    try:
        mi = s.model
        res = compare_reader(r, mi.docs, mi.schema, mi.field_names)
    finally:
        r.close()
    if res:
        raise Violation("no_lost_update", "final index differs from the successful commits applied in TOC order: %s" % res[1],
                        sig="no_lost_update:" + res[0])
    try:
        w = ix.writer(timeout=0)
    except LockError:
        raise Violation("lock_released", "after all writers finished a new writer still gets LockError")
    w.cancel()


def execute(record, trace=False):
    cfg = cfg_from_record(record["config"])
    pol = record.get("policy") or ["sticky", 0.9]
    s = SchedSession(record["seed"], cfg=cfg, keep_log=trace, policy=tuple(pol),
                     replay_schedule=record.get("schedule"), storage_kind=record.get("storage_kind", "file"))
    s.k.gc_tick_p = record.get("gc_tick", 0)
    s.share_ix = bool(record.get("share_ix"))
    try:
        try:
            s.setup_index()
            if record.get("lines"):
                s.k.enable_lines(*record["lines"])
            writers = [_plain(s, a)
                       if a.get("kind", "writer") == "writer" else
                       _front(s, a)
                       for a in record["actors"]]
            dl = s.run_actors(writers)
            st = s.full_stats()
            st.update(s.k.counters)
            st["events"] = s.k.seq
            st["switches"] = s.k.switches
            st["sim_seconds"] = (s.k.now_us - 1_700_000_000_000_000) / 1e6
            patch = {"schedule": list(s.k.schedule)}

            def viol(v):
                res = engine.result_violation(v.clause, v.detail, sig=v.sig, stats=st, digest=s.k.event_digest(),
                                              isig=s.k.interleaving_sig())
                res["record_patch"] = patch
                if trace:
                    res["log"] = s.k.log
                return res
            if dl is not None:
                return viol(Violation("no_deadlock", "no runnable task: %s" % [(d["task"], d["waiting_for"]) for d in dl], sig="deadlock"))
            for w in writers:
                if w.violation is not None:
                    return viol(w.violation)
            for t in s.k.tasks:
                if t.exc is not None and not isinstance(t.exc, (SimAbort, SimKilled)):
                    if t.name.startswith("thr:"):
                        # a thread the library started itself (AsyncWriter's replay thread) died
                        return viol(Violation("frontend_raised", "library thread %s died: %s: %s" % (t.name, type(t.exc).__name__, t.exc),
                                              sig="library_thread_died:%s:%s" % (t.name, exc_sig(t.exc))))
                    return engine.result_harness("task %s raised %s\n%s" % (t.name, t.exc, t.exc_tb))
            try:
                check_history(s, writers)
                final_checks(s, s.actor_storage().open_index())
            except Violation as v:
                return viol(v)
            nontrivial = st.get("commits", 0) >= 1 and s.k.switches >= 1 and len(writers) >= 2
            smp = {"seed": record["seed"], "storage": record.get("storage_kind"), "policy": pol,
                   "actors": [{"name": a["name"], "process": a.get("own_process"),
                               "kind": a.get("kind", "writer"),
                               "txs": [{"timeout": t["timeout"], "ops": [o[0] for o in t["body"]], "end": (t.get("end") or ["commit"])[0]} for t in a["txs"]]}
                              for a in record["actors"]],
                   "outcomes": [(att["actor"], att.get("outcome"), att.get("result")) for w in writers for att in w.attempts],
                   "switches": s.k.switches}
            res = engine.result_ok(stats=st, digest=s.k.event_digest(), nontrivial=nontrivial,
                                   isig=s.k.interleaving_sig(), sample=smp)
            res["known_hits"] = dict(s.known_hits)
            if trace:
                res["log"] = s.k.log
            return res
        except (SimAbort, SimKilled) as e:
            if (s.k.abort_reason or "").startswith("event cap exceeded"):
                # "writers never dead-lock the index": one operation that does not finish within
                # 200000 scheduling points (lock polls included) is a live-lock
                waiting = sorted(set("%s:%s" % (t.name, t.wait_desc) for t in s.k.tasks if t.state != "done"))
                res = engine.result_violation("no_deadlock", "an operation did not finish within %d events (tasks still alive: %s)" % (s.k.max_events, waiting),
                                              sig="livelock", stats={}, digest=s.k.event_digest(), isig=s.k.interleaving_sig())
                res["record_patch"] = {"schedule": list(s.k.schedule)}
                return res
            return engine.result_harness("run aborted: %s (%s) deadlock=%s" % (s.k.abort_reason, type(e).__name__, s.k.deadlock))
        except HarnessError as e:
            return engine.result_harness("HarnessError: %s" % e)
    finally:
        s.close()


def shrink(record, fails, budget):
    return shrink_sched(record, fails, budget)
