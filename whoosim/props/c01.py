"""C01 - search returns exactly the documents that satisfy the query."""

import copy
import random

from whoosim import engine
from whoosim import queries as Q
from whoosim.kernel import HarnessError, SimAbort, SimKilled
from whoosim.props import _hist
from whoosim.session import Violation, exc_sig

ID = "C01"
LEVEL = "exploration"
REAL, STUBS = _hist.REAL, _hist.STUBS
RULE = ("per-run seed -> knobs + a history of 1-6 writer transactions with every merge choice, deletions and restarts (index "
        "states with 1..n segments, with and without deletions, reached through the real storage layer on the simulated "
        "machine; 35% of the runs start with a bulk transaction of 30-70 documents at block limit 1-8) + 12 query trees (7 random of "
        "depth <= 3, 3 of fixed shapes mixing binary operators over intersections/unions, 2 phrases taken with gaps from documents of "
        "the history; leaves: Term, Phrase with slop, Prefix, Wildcard, Regex, TermRange, NumericRange, DateRange, FuzzyTerm (skipped where "
        "the documented distances disagree), Every; operators And, Or, Not, AndNot, AndMaybe, Require, DisjunctionMax, boosts). After the final commit and a "
        "cold reopen each tree is run through 12 access paths {limit=None, limit=1/2/5, scored=False, sortedby (+limit), "
        "docs_for_query, Query.docs per sub-searcher and on the top-level searcher, Results.docs(), terms=True} and compared with the set evaluator over the reference model. "
        "evaluations = (state, query, path) comparisons; non-trivial run = >=1 commit and >=1 query with a non-empty "
        "expected set; distinct = distinct event-log SHA-256 x query list."
        ' A searcher refresh()ed across the commits is one more access path (40% of runs); knob hashbits (weak hash behind the on-disk hash tables).')
ASSUMPTIONS = ["the query-shape dimension is sampled workload (input generation); what the simulator contributes is the index state: histories, layouts, deletions, knobs, restarts",
               "documented meanings: Not = live documents minus matches, AndMaybe = first operand, Require = intersection, DisjunctionMax = union, Phrase(slop) = consecutive words at position distance 1..slop",
               "analysis is trusted (terms of a document come from field.index)"]
TIERS = {"quick": {"runs": 700, "time_budget": 150, "audit_every": 40},
         "thorough": {"runs": 30000, "time_budget": 1500, "audit_every": 100}}


def generate(seed, tier):
    r = random.Random("%s/mode" % seed)
    want = [n for n in ("tc", "kw", "n", "nu", "dt", "b", "tb") if r.random() < 0.5]
    rec = _hist.generate_hist(
        ID, seed,
        gen_kwargs={"ntx": (1, 6), "maxops": 8, "p_iofault": 0.0, "p_raise": 0.0, "p_cancel": 0.03,
                    "p_restart": 0.2, "p_delete": r.choice((0.0, 0.2, 0.35)),
                    "merges": ("none", "none", "none", "default", "optimize", "custom")},
        cfg_kwargs={"want": want, "force": {"long_text_p": 0.0}})
    from whoosim.session import cfg_from_record
    cfg = cfg_from_record(rec["config"])
    if r.random() < 0.35:
        # a bulk transaction first: posting lists that span several (small)
        # blocks, so that the limited access paths really prune
        from whoosim.workload import DocGen
        br = random.Random("%s/bulk" % seed)
        dg = DocGen(cfg, br, nkeys=12)
        dg.next_uid = 100000
        bulk = [["writer", {}]] + [["add", dg.doc(sparse_p=0.1)] for _ in range(br.randint(30, 70))] + [["commit", {"merge": "none"}]]
        rec["ops"] = bulk + rec["ops"]
        rec["config"]["blocklimit"] = br.choice((1, 2, 3, 4, 8))
    qr = random.Random("%s/queries" % seed)
    rec["queries"] = ([Q.gen_query(qr, cfg, depth=qr.choice((1, 2, 2, 3))) for _ in range(7)]
                      + [Q.gen_shaped_query(qr, cfg) for _ in range(3)])
    # phrases taken (with gaps) from documents of this history, so that they match something
    alldocs = [op[1] for op in rec["ops"] if op[0] in ("add", "update")] + [d for op in rec["ops"] if op[0] == "group" for d in op[1]]
    for _ in range(2):
        ph = Q.gen_phrase_from_docs(qr, alldocs, "t")
        if ph is not None:
            rec["queries"].append(ph)
    rec["hold_searcher"] = random.Random("%s/hold" % seed).random() < 0.4
    return rec


def path_results(srch, q, path, reader):
    """Returns (set of uids, reported length or None)."""
    def uids(docnums):
        return [reader.stored_fields(dn)["u"] for dn in docnums]
    if path == "unlimited":
        r = srch.search(q, limit=None)
        return [h["u"] for h in r], len(r)
    if path.startswith("limit"):
        k = int(path[5:])
        r = srch.search(q, limit=k)
        return [h["u"] for h in r], len(r)
    if path == "unscored":
        r = srch.search(q, limit=None, scored=False)
        return [h["u"] for h in r], len(r)
    if path == "sorted":
        r = srch.search(q, limit=None, sortedby="k")
        return [h["u"] for h in r], len(r)
    if path == "sortedlimit":
        r = srch.search(q, limit=3, sortedby="k")
        return [h["u"] for h in r], len(r)
    if path == "terms":
        r = srch.search(q, limit=None, terms=True)
        return [h["u"] for h in r], len(r)
    if path == "docs_for_query":
        return uids(list(srch.docs_for_query(q))), None
    if path == "query_docs":
        if srch.subsearchers:
            out = []
            for ss, off in srch.subsearchers:
                out.extend(dn + off for dn in q.docs(ss))
            return uids(out), None
        return uids(list(q.docs(srch))), None
    if path == "query_docs_top":
        # the form the Query.docs() docstring shows: the top-level searcher (one matcher spanning all segments)
        return uids(list(q.docs(srch))), None
    if path == "results_docs":
        r = srch.search(q, limit=2)
        return uids(sorted(r.docs())), len(r)
    raise HarnessError(path)


PATHS = ("unlimited", "limit1", "limit2", "limit5", "unscored", "sorted", "sortedlimit", "terms",
         "docs_for_query", "query_docs", "query_docs_top", "results_docs")


class _keep_open(object):
    def __init__(self, srch):
        self.srch = srch

    def __enter__(self):
        return self.srch

    def __exit__(self, *a):
        return False


def check_queries(s, ix, qspecs, where, counters, srch=None):
    mi = s.model
    docs = mi.docs
    with (ix.searcher() if srch is None else _keep_open(srch)) as srch:
        reader = srch.reader()
        for spec in qspecs:
            try:
                exp = Q.evaluate(spec, docs, mi.schema)
            except Q.Ambiguous:
                counters["ambiguous_skipped"] = counters.get("ambiguous_skipped", 0) + 1
                continue
            except Exception as e:  # noqa
                raise HarnessError("evaluator failed on %s: %s" % (Q.show(spec), e))
            q = Q.build(spec, mi.schema)
            if exp:
                counters["nonempty"] += 1
            for path in PATHS:
                counters["evals"] += 1
                try:
                    got, n = path_results(srch, q, path, reader)
                except (SimAbort, SimKilled, HarnessError):
                    raise
                except Exception as e:  # noqa
                    raise Violation("search_raised", "%s: %s via %s raised %s: %s" % (where, Q.show(spec), path, type(e).__name__, e),
                                    sig="search_raised:%s" % exc_sig(e))
                limited = path.startswith("limit") or path in ("sortedlimit",)
                if len(got) != len(set(got)):
                    raise Violation("matched_set_exact", "%s: %s via %s returned a document twice: uids %s" % (where, Q.show(spec), path, sorted(got)),
                                    sig="matched_set:duplicate:" + path_family(path))
                if limited:
                    k = 3 if path == "sortedlimit" else int(path[5:])
                    if not set(got) <= exp or len(got) != min(k, len(exp)):
                        raise Violation("matched_set_exact", "%s: %s via %s returned uids %s; the satisfying documents are %s"
                                        % (where, Q.show(spec), path, sorted(got), sorted(exp)), sig="matched_set:" + path_family(path))
                elif path == "results_docs":
                    if set(got) != exp:
                        raise Violation("matched_set_exact", "%s: %s: Results.docs() of a limit=2 search is %s; the satisfying documents are %s"
                                        % (where, Q.show(spec), sorted(got), sorted(exp)), sig="matched_set:results_docs")
                else:
                    if set(got) != exp:
                        raise Violation("matched_set_exact", "%s: %s via %s returned uids %s; the satisfying documents are %s (extra %s, missing %s)"
                                        % (where, Q.show(spec), path, sorted(got), sorted(exp), sorted(set(got) - exp), sorted(exp - set(got))),
                                        sig="matched_set:" + path_family(path))
                if n is not None and n != len(exp):
                    raise Violation("len_results_exact", "%s: %s via %s: len(results)=%s, %d documents satisfy the query"
                                    % (where, Q.show(spec), path, n, len(exp)), sig="len_results:" + path_family(path))


def path_family(path):
    if path.startswith("limit"):
        return "limit"
    return path


def make_hooks(s, record):
    counters = {"evals": 0, "nonempty": 0}

    held = {"srch": None, "ix": None}

    def refreshed(actor):
        """One more access path: a long-lived searcher that answered queries under earlier
        generations (warm caches) and is brought up to date with refresh()."""
        if not record.get("hold_searcher") or actor.ix is None:
            return None
        try:
            if held["srch"] is None or held["ix"] is not actor.ix:
                held["srch"] = actor.ix.searcher()
            else:
                held["srch"] = held["srch"].refresh()
        except (SimAbort, SimKilled, HarnessError):
            raise
        except Exception as e:  # noqa
            raise Violation("search_raised", "refresh() raised %s: %s" % (type(e).__name__, e), sig="refresh_raised:" + exc_sig(e))
        held["ix"] = actor.ix
        s.count("refreshed_searcher_checks")
        return held["srch"]

    def after_commit(actor, probe_only=False):
        s.count("probes")
        # one cheap sanity probe per commit; the full set runs at the end
        check_queries(s, actor.ix, record["queries"][:2], "after commit %d" % s.model.generation, counters)
        hs = refreshed(actor)
        if hs is not None:
            check_queries(s, actor.ix, record["queries"][:3], "after commit %d (refreshed searcher)" % s.model.generation, counters, srch=hs)

    def finish(actor):
        if actor.ix is not None:
            check_queries(s, actor.ix, record["queries"], "final state (same process)", counters)
            hs = refreshed(actor)
            if hs is not None:
                check_queries(s, actor.ix, record["queries"], "final state (refreshed searcher)", counters, srch=hs)
        actor.ix = None
        s.new_process("final")
        if s.index_exists():
            actor.ensure_index()
            check_queries(s, actor.ix, record["queries"], "cold reopen", counters)
            r = actor.ix.reader()
            try:
                s.stats["segments"] = len(list(r.leaf_readers()))
                s.stats["with_deletions"] = 1 if r.has_deletions() else 0
            finally:
                r.close()
        s.stats["query_path_evaluations"] = counters["evals"]
        s.stats["queries_with_matches"] = counters["nonempty"]
    return {"after_commit": after_commit, "finish": finish}


def execute(record, trace=False):
    res = _hist.execute_hist(record, make_hooks, trace=trace)
    if res["verdict"] == "ok":
        res["nontrivial"] = res["nontrivial"] and res["stats"].get("queries_with_matches", 0) > 0
        if res.get("sample"):
            res["sample"]["queries"] = [Q.show(q) for q in record["queries"][:5]]
    return res


def shrink(record, fails, budget):
    cur = copy.deepcopy(record)
    # first find a single failing query
    for q in record["queries"]:
        t = copy.deepcopy(cur)
        t["queries"] = [q]
        budget[0] -= 1
        if fails(t):
            cur = t
            break
    cur = _hist.shrink_hist(cur, fails, budget)
    # shrink the query tree
    changed = True
    while changed and budget[0] > 0 and cur["queries"]:
        changed = False
        for cand in subtrees(cur["queries"][0]):
            t = copy.deepcopy(cur)
            t["queries"] = [cand]
            budget[0] -= 1
            if fails(t):
                cur = t
                changed = True
                break
            if budget[0] <= 0:
                break
    return cur


def subtrees(spec):
    """Simpler variants of a query spec: children, and the spec with one
    child replaced by a simpler variant."""
    k = spec[0]
    out = []
    if k in ("and", "or", "dismax"):
        for c in spec[1]:
            out.append(c)
        if len(spec[1]) > 2:
            for i in range(len(spec[1])):
                out.append([k, spec[1][:i] + spec[1][i + 1:]] + spec[2:])
        for i, c in enumerate(spec[1]):
            for v in subtrees(c):
                out.append([k, spec[1][:i] + [v] + spec[1][i + 1:]] + spec[2:])
    elif k in ("not", "boost", "const"):
        out.append(spec[1])
        for v in subtrees(spec[1]):
            out.append([k, v] + spec[2:])
    elif k in ("andnot", "andmaybe", "require"):
        out.append(spec[1])
        out.append(spec[2])
        for v in subtrees(spec[1]):
            out.append([k, v, spec[2]])
        for v in subtrees(spec[2]):
            out.append([k, spec[1], v])
    return out
