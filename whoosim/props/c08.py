"""C08 - stored values and column values come back unchanged for the right document."""

import random

from whoosim.props import _hist
from whoosim.session import Violation, compare_reader, exc_sig
from whoosim.kernel import SimAbort, SimKilled, HarnessError

ID = "C08"
LEVEL = "exploration"
REAL, STUBS = _hist.REAL, _hist.STUBS
RULE = ("per-run seed -> schema with a random subset of stored/sortable field types and explicit column types (var/fixed/ref "
        "bytes, numeric i/q/d, bit, compressed, compressed-block, pickle, list, struct) + value zoo (non-BMP text, bytes, ints "
        "at range limits, floats incl. -0.0, Decimals, datetimes, booleans, nested picklables, _stored_ overrides) + a history "
        "with sparse documents, merges, compound packing, mmap on/off, restarts and a final copy_to_ram; knobs for the constants "
        "the library never parameterises (CompoundWriter buffer 64 B..32 KB, VarBytesColumn offsets cutoff 2..32768); half of the runs with a "
        "reference column cross 256 distinct values in one transaction; after every commit "
        "stored fields and column values of every live document are compared with what was supplied (or the column default). "
        "Non-trivial = >=1 commit and >=1 read-back; distinct = distinct event-log SHA-256."
        ' 25% of runs end with documents held by a BufferedWriter read back twice (scribbling caller) and flushed.')
ASSUMPTIONS = ["column default = field.from_column_value(column_type.default_value()) (pure conversion functions are trusted)",
               "offsets beyond 2^31 and >65 536 distinct reference values are not reached in the quick tier (thorough runs one large-cardinality variant per 50 seeds)"]
TIERS = {"quick": {"runs": 1200, "time_budget": 100, "audit_every": 40},
         "thorough": {"runs": 50000, "time_budget": 1500, "audit_every": 100}}

COLS = ["cvb", "cvb0", "cfb", "crb", "crf", "cni", "cnq", "cnd", "cbit", "cbit2", "ccb", "cpk", "cvl", "cfl", "cst"]


def generate(seed, tier):
    r = random.Random("%s/mode" % seed)
    want = [n for n in COLS if r.random() < 0.3]
    want += [n for n in ("s", "n", "nd", "nf", "nu", "dt", "dts", "b", "so", "kw") if r.random() < 0.5]
    big = (tier == "thorough" and seed % 50 == 0)
    rec = _hist.generate_hist(
        ID, seed,
        gen_kwargs={"ntx": (1, 5), "maxops": (60 if big else 8), "p_iofault": 0.0, "p_raise": 0.02, "p_cancel": 0.03,
                    "p_restart": 0.3, "p_delete": r.choice((0.0, 0.15, 0.3)), "p_bad_add": 0.06,
                    "merges": ("none", "none", "default", "optimize", "custom")},
        cfg_kwargs={"want": want}, nkeys=(400 if big else 12))
    rec["copy_to_ram"] = r.random() < 0.5
    if "crb" in rec["config"]["fields"] and r.random() < 0.5:
        # the reference column switches from 1-byte to 2-byte references at 256 distinct values:
        # one transaction crosses that threshold, with documents lacking the field before and after it
        from whoosim.session import cfg_from_record
        from whoosim.workload import DocGen
        br = random.Random("%s/bulk" % seed)
        dg = DocGen(cfg_from_record(rec["config"]), br, nkeys=12)
        dg.next_uid = 100000
        bulk = [["writer", {}]]
        for i in range(br.randint(262, 330)):
            d = dg.doc(fields_subset=["crb", "crf"], sparse_p=0.0)
            d["t"] = d["t"].split(" ")[0] if d.get("t") else u"x"
            if br.random() < 0.12:
                d.pop("crb", None)
            else:
                d["crb"] = (u"v%04d" % i).encode()
            bulk.append(["add", d])
        bulk.append(["commit", {"merge": br.choice(("none", "default", "optimize"))}])
        pos = 0 if br.random() < 0.5 else len(rec["ops"])
        rec["ops"] = rec["ops"][:pos] + bulk + rec["ops"][pos:]
    # 25% of the runs end with a batch of documents held by a BufferedWriter: their values are read back
    # (twice) while they sit in the in-memory codec, through the writer's reader and searcher, then flushed
    mr = random.Random("%s/mem" % seed)
    if mr.random() < 0.25:
        from whoosim.session import cfg_from_record
        from whoosim.workload import DocGen
        dg = DocGen(cfg_from_record(rec["config"]), mr, nkeys=12)
        dg.next_uid = 200000
        rec["mem_docs"] = [dg.doc(key=100 + i, sparse_p=0.3) for i in range(mr.randint(1, 8))]
    return rec


def make_hooks(s, record):
    def check(actor, ix, where):
        mi = s.model
        s.count("probes")
        try:
            r = ix.reader()
        except (SimAbort, SimKilled, HarnessError):
            raise
        except Exception as e:  # noqa
            raise Violation("reader_open_raised", "%s: %s" % (type(e).__name__, e), sig="reader_open_raised:" + exc_sig(e))
        try:
            res = compare_reader(r, mi.docs, mi.schema, mi.field_names, parts=("docs", "stored", "columns"))
        finally:
            r.close()
        if res:
            clause = {"docs": "right_document", "stored": "stored_unchanged", "columns": "column_unchanged_or_default"}[res[0]]
            raise Violation(clause, "%s, generation %d: %s" % (where, mi.generation, res[1]), sig="%s" % clause)
        # Hit[...] falls back to columns for unstored sortable fields
        with ix.searcher() as srch:
            from whoosh import query
            res = srch.search(query.Every(), limit=None)
            byuid = dict((d.uid, d) for d in mi.docs)
            for hit in res:
                d = byuid.get(hit["u"])
                if d is None:
                    continue
                for f, v in d.stored.items():
                    if f not in mi.field_names:
                        continue
                    from whoosim.model import _eq
                    if not _eq(hit[f], v):
                        raise Violation("stored_unchanged", "%s: Hit[%r] of uid %s = %r, supplied %r" % (where, f, d.uid, hit[f], v),
                                        sig="stored_unchanged:hit")

    def after_commit(actor, probe_only=False):
        check(actor, actor.ix, "after commit")

    def memory_phase(actor):
        from whoosh.writing import BufferedWriter
        from whoosh import query
        from whoosim.model import _eq
        mi = s.model

        def guard(fn, what):
            try:
                return fn()
            except (SimAbort, SimKilled, HarnessError, Violation):
                raise
            except Exception as e:  # noqa
                raise Violation("stored_unchanged", "BufferedWriter: %s raised %s: %s" % (what, type(e).__name__, e), sig="buffered_raised:%s:%s" % (what, exc_sig(e)))
        bw = guard(lambda: BufferedWriter(actor.ix, period=None, limit=10000, writerargs=dict(s.cfg.writer_kwargs())), "__init__")
        try:
            mw = mi.writer()
            for d in record["mem_docs"]:
                guard(lambda: bw.add_document(**d), "add_document")
                mw.add(d)
            mw.commit()
            for rnd in (1, 2):
                rd = guard(lambda: bw.reader(), "reader")
                try:
                    res = compare_reader(rd, mi.docs, mi.schema, mi.field_names, parts=("docs", "stored", "columns"))
                finally:
                    rd.close()
                if res:
                    clause = {"docs": "right_document", "stored": "stored_unchanged", "columns": "column_unchanged_or_default"}[res[0]]
                    raise Violation(clause, "documents held by a BufferedWriter, read %d: %s" % (rnd, res[1]), sig="%s:buffered" % clause)
                srch = guard(lambda: bw.searcher(), "searcher")
                try:
                    byuid = dict((d.uid, d) for d in mi.docs)
                    for hit in guard(lambda: srch.search(query.Every(), limit=None), "search"):
                        fs = hit.fields()
                        d = byuid.get(fs.get("u"))
                        if d is None:
                            continue
                        for f, v in d.stored.items():
                            if f in mi.field_names and not _eq(fs.get(f), v):
                                raise Violation("stored_unchanged", "BufferedWriter.searcher(), read %d: Hit.fields()[%r] of uid %s = %r, supplied %r" % (rnd, f, d.uid, fs.get(f), v),
                                                sig="stored_unchanged:buffered_hit")
                        if s.cfg.scribble:
                            fs.clear()
                            fs["zz_scribbled_by_caller"] = 1
                finally:
                    srch.close()
            s.count("memory_phases")
        finally:
            guard(lambda: bw.close(), "close")
        s.count("commits")

    def finish(actor):
        actor.ix = None
        s.new_process("final")
        if record.get("mem_docs") and s.index_exists():
            actor.ensure_index()
            memory_phase(actor)
            actor.ix = None
            s.new_process("final2")
        if s.index_exists():
            actor.ensure_index()
            check(actor, actor.ix, "cold reopen")
            if record.get("copy_to_ram"):
                from whoosh.filedb.filestore import copy_to_ram
                ram = copy_to_ram(actor.ix.storage)
                rix = ram.open_index()
                check(actor, rix, "copy_to_ram")
                s.count("copy_to_ram_checked")

    return {"after_commit": after_commit, "finish": finish}


def execute(record, trace=False):
    return _hist.execute_hist(record, make_hooks, trace=trace)


def shrink(record, fails, budget):
    return _hist.shrink_hist(record, fails, budget)
