"""A simulated machine with one index, the reference model beside it, and
an executor for explicit operation records (the replayable workload)."""

import gc
import sys
import traceback

from whoosim import seams
from whoosim.kernel import Kernel, SimAbort, SimKilled, HarnessError
from whoosim.simos import SimOS
from whoosim.workload import RunConfig, DocGen
from whoosim import model as M
from whoosim import dump as D

INDEX_DIR = "/ix"


class UserError(Exception):
    """The exception a workload raises inside a with-block."""


class Violation(Exception):
    def __init__(self, clause, detail, sig=None):
        Exception.__init__(self, "%s: %s" % (clause, detail))
        self.clause = clause
        self.detail = detail
        self.sig = sig or clause


def whoosh_frame(tb=None, exc=None):
    """Innermost frame inside /repo/src/whoosh of an exception: 'file:func'."""
    if exc is not None:
        tb = exc.__traceback__
    best = None
    while tb is not None:
        fn = tb.tb_frame.f_code.co_filename
        if fn.startswith(seams.REPO_SRC + "/whoosh/"):
            best = "%s:%s" % (fn[len(seams.REPO_SRC) + 8:], tb.tb_frame.f_code.co_name)
        tb = tb.tb_next
    return best or "?"


def exc_sig(e):
    import os
    if os.environ.get("WHOOSIM_TB"):
        traceback.print_exception(type(e), e, e.__traceback__)
    return "%s@%s" % (type(e).__name__, whoosh_frame(exc=e))


def cfg_from_record(rec):
    import random
    cfg = RunConfig(random.Random(0))
    # knobs added after a record was written keep the library's own value when replaying it
    cfg.hashbits = 32
    cfg.scribble = False
    for k, v in rec.items():
        setattr(cfg, k, v)
    return cfg


def apply_hashbits(cfg):
    """Knob: the hash of the on-disk hash tables (term dictionary, stored-field index). With only a
    few significant bits every table is full of colliding keys, which a correct open-addressing
    lookup must still tell apart (at 32 bits a collision needs ~10^5 keys in one segment). Whoever
    reads an index must use the function it was written with: recovery sessions apply it too.
    Returns what restore_hashbits() needs."""
    from whoosh.filedb import filetables as _ft
    saved = _ft._hash_functions
    hb = getattr(cfg, "hashbits", 32)
    if hb != 32:
        mask = (1 << hb) - 1
        orig_md5 = _ft.md5_hash
        _ft._hash_functions = (lambda key: orig_md5(key) & mask,) + tuple(saved[1:])
    return saved


def restore_hashbits(saved):
    from whoosh.filedb import filetables as _ft
    _ft._hash_functions = saved


class Session(object):
    def __init__(self, seed, cfg=None, cfg_kwargs=None, policy=None,
                 replay_schedule=None, keep_log=False, max_events=200000,
                 real_dir=None):
        """real_dir: run on the REAL operating system in that scratch
        directory instead of the simulated one (stub-fidelity self-test and
        triage only; no scheduling, no faults)."""
        self.seed = seed
        self.real_dir = real_dir
        self.k = Kernel(seed, policy=policy, replay_schedule=replay_schedule,
                        keep_log=keep_log, max_events=max_events)
        seams.load_whoosh()
        if cfg is None:
            cfg = RunConfig(self.k.stream("config"), **(cfg_kwargs or {}))
        self.cfg = cfg
        self.os = SimOS(self.k, bufsize=cfg.bufsize, hide_fileno=cfg.hide_fileno)
        self.k.bind_main()
        if real_dir is None:
            seams.install(self.k, self.os)
            seams.install_tripwires()
        else:
            seams.remove_tripwires()
            import random as _r
            import whoosh.util
            self._real_random = whoosh.util.random
            whoosh.util.random = seams._RandomFacade(self.k.stream("names"))
        # tuning knob without a public parameter: the codec builds its per-document
        # CompoundWriter with the default buffer size
        from whoosh.filedb import compound as _compound
        self._cw_init = _compound.CompoundWriter.__dict__["__init__"]
        cb = getattr(cfg, "cbuf", 32768)
        if cb != 32768:
            orig_init = self._cw_init

            def _cw_init(cw, tempstorage, buffersize=cb):
                orig_init(cw, tempstorage, buffersize)
            _compound.CompoundWriter.__init__ = _cw_init
        from whoosh import columns as _columns
        self._vb_init = _columns.VarBytesColumn.__dict__["__init__"]
        oc = getattr(cfg, "offcut", 32768)
        if oc != 32768:
            orig_vb = self._vb_init

            def _vb_init(col, allow_offsets=True, write_offsets_cutoff=oc):
                orig_vb(col, allow_offsets, write_offsets_cutoff)
            _columns.VarBytesColumn.__init__ = _vb_init
        from whoosh.matching import combo as _combo
        self._au_init = _combo.ArrayUnionMatcher.__dict__["__init__"]
        ap = getattr(cfg, "aupart", 2048)
        if ap != 2048:
            orig_au = self._au_init

            def _au_init(m, submatchers, doccount, boost=1.0, scored=True, partsize=ap):
                orig_au(m, submatchers, doccount, boost=boost, scored=scored, partsize=partsize)
            _combo.ArrayUnionMatcher.__init__ = _au_init
        self._hash_fns = apply_hashbits(cfg)
        D.SCRIBBLE[0] = bool(getattr(cfg, "scribble", False))
        self.model = M.ModelIndex(cfg)
        self.stats = {}
        self.known_hits = {}
        self._known_sigs = None
        self._gc_was = gc.isenabled()
        gc.disable()
        _quiet_unraisable()
        self.closed = False

    def count(self, name, n=1):
        self.stats[name] = self.stats.get(name, 0) + n

    def full_stats(self):
        """Workload counters + kernel counters + per-kind event counts."""
        st = dict(self.stats)
        for k_, v_ in self.k.counters.items():
            st[k_] = st.get(k_, 0) + v_
        for kind, n in self.k.kind_counts.items():
            st["ev:" + kind] = n
        return st

    def soft(self, violation):
        """Report a violation whose signature may be a recorded known finding:
        a known one is noted and the run goes on (so that it cannot mask
        anything else); any other is raised."""
        if self._known_sigs is None:
            from whoosim import engine
            self._known_sigs = set(k["signature"] for k in engine.load_known()
                                   if k.get("status") == "known")
        if violation.sig in self._known_sigs:
            self.known_hits[violation.sig] = self.known_hits.get(violation.sig, 0) + 1
            return
        raise violation

    def close(self):
        if self.closed:
            return
        self.closed = True
        try:
            self.k.shutdown()
        finally:
            # finalise whatever the run left behind while the (now aborting)
            # simulated OS is still in place
            gc.collect()
            from whoosh.filedb import compound as _compound
            _compound.CompoundWriter.__init__ = self._cw_init
            from whoosh import columns as _columns
            _columns.VarBytesColumn.__init__ = self._vb_init
            from whoosh.matching import combo as _combo
            _combo.ArrayUnionMatcher.__init__ = self._au_init
            restore_hashbits(self._hash_fns)
            if self.real_dir is None:
                seams.uninstall()
            else:
                import whoosh.util
                whoosh.util.random = self._real_random
            if self._gc_was:
                gc.enable()
            gc.collect()

    # -- index helpers ---------------------------------------------------------

    def storage(self, path=INDEX_DIR, ram=False):
        from whoosh.filedb.filestore import FileStorage
        if self.real_dir is not None:
            path = self.real_dir + path
        return FileStorage(path, supports_mmap=(getattr(self.cfg, "mmap", True) and not self.cfg.hide_fileno))

    def index_exists(self, path=INDEX_DIR):
        if self.real_dir is not None:
            import os
            return os.path.isdir(self.real_dir + path)
        return self.os._lookup(path) is not None

    def create_index(self, path=INDEX_DIR):
        st = self.storage(path).create()
        st.create_index(self.cfg.make_schema())
        # An Index object constructed WITH a schema shares that object with
        # every writer it hands out (writers mutate it in add/remove_field,
        # cancel does not restore it). That override mode is outside the
        # properties; use the plain "open what is on disk" object.
        return st.open_index()

    def open_index(self, path=INDEX_DIR):
        return self.storage(path).open_index()

    def new_process(self, name="proc"):
        """Switch the current task into a brand-new simulated process (the
        caller must have dropped every Whoosh object of the old one)."""
        p = self.k.new_proc(name)
        self.k.current.proc = p
        return p


_orig_unraisable = [None]


def _quiet_unraisable():
    """Finalizers of objects abandoned by an aborted/killed simulated task
    raise SimAbort/SimKilled from their seam calls: that is the intended
    effect (a dead process touches nothing), not something to print."""
    if _orig_unraisable[0] is not None:
        return
    _orig_unraisable[0] = sys.unraisablehook

    def hook(u):
        if isinstance(u.exc_value, (SimAbort, SimKilled)):
            return
        if isinstance(u.exc_value, HarnessError) and "unsimulated nondeterminism source" in str(u.exc_value):
            # a finalizer of the finished run (a suspended generator's cleanup, a lock object)
            # reached the real OS after the simulation was taken down: the tripwire stopped it
            return
        if isinstance(u.exc_value, OSError) and getattr(u.exc_value, "errno", None) == 9:
            # ... or closed one of the simulation's descriptor numbers (>= 10^6) on the real OS
            return
        _orig_unraisable[0](u)
    sys.unraisablehook = hook


def find_docnum(reader, uid):
    for dn in reader.all_doc_ids():
        if reader.stored_fields(dn).get("u") == uid:
            return dn
    return None


def defaults_for(schema):
    out = {}
    for n in schema.names():
        ct = schema[n].column_type
        if ct:
            try:
                out[n] = ("ok", schema[n].from_column_value(ct.default_value()))
            except Exception as e:  # noqa
                out[n] = ("err", repr(e))
    return out


def normalise_defaults(exp, got, schema):
    """Where the model expects the column default and the reader returned
    exactly the translated default value, mark it as default."""
    defs = defaults_for(schema)
    for uid, ed in exp["docs"].items():
        gd = got["docs"].get(uid)
        if not gd:
            continue
        for n, ev in ed["columns"].items():
            gv = gd["columns"].get(n)
            if ev[0] == "default" and gv is not None and gv[0] == "v":
                d = defs.get(n)
                if d and d[0] == "ok" and M._eq(d[1], gv[1]):
                    gd["columns"][n] = ("default", None)


def compare_reader(reader, docs, schema, field_names, parts=None):
    """Compare a real reader with model docs. Returns (part, message) of the
    first difference or None. ``parts`` restricts which parts are judged:
    subset of {"docs","stored","lengths","vectors","columns","terms","count"}."""
    parts = parts or ("count", "docs", "stored", "lengths", "vectors", "columns", "terms")
    try:
        got = D.real_dump(reader, schema, parts=parts)
    except D.DumpError as e:
        if isinstance(e.exc, (SimAbort, SimKilled, HarnessError)):
            raise e.exc
        raise Violation("read_raised", str(e), sig="read_raised:%s:%s" % (
            e.where.split("(")[0], exc_sig(e.exc)))
    exp = M.model_dump(docs, schema, field_names)
    normalise_defaults(exp, got, schema)
    parts = parts or ("count", "docs", "stored", "lengths", "vectors", "columns", "terms")
    if "duplicate_uids" in got and "docs" in parts:
        return "docs", "documents returned twice: uids %s" % (got["duplicate_uids"][:5],)
    if "lexicon_order_errors" in got and "terms" in parts:
        return "terms", "all_terms() is not strictly ascending: %r then %r" % tuple(got["lexicon_order_errors"])
    if "posting_order_errors" in got and "terms" in parts:
        return "terms", "posting ids not ascending: %s" % (got["posting_order_errors"],)
    if "count" in parts and got["doc_count"] != exp["doc_count"]:
        return "count", "doc_count() = %s, model has %s live documents" % (got["doc_count"], exp["doc_count"])
    if "docs" in parts:
        ek, gk = set(exp["docs"]), set(got["docs"])
        if ek != gk:
            return "docs", "live documents differ: missing uids %s, unexpected uids %s" % (
                sorted(ek - gk, key=repr)[:6], sorted(gk - ek, key=repr)[:6])
    for part in ("stored", "lengths", "vectors", "columns"):
        if part not in parts:
            continue
        for uid in sorted(exp["docs"], key=repr):
            if uid not in got["docs"]:
                continue
            r = M.diff_dumps(exp["docs"][uid][part], got["docs"][uid][part],
                             "uid=%s/%s" % (uid, part))
            if r:
                return part, r
    if "terms" in parts:
        r = M.diff_dumps(exp["terms"], got["terms"], "terms")
        if r:
            return "terms", r
    return None
