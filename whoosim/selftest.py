"""Self-tests of the simulator (DESIGN.md section 8):

  ./check ALL --selftest determinism   same seed => same event-log digest: twice in one process, in a fresh
                                       interpreter, at 1 and 16 workers
  ./check ALL --selftest simos         stub fidelity: the simulated OS against the real one
  ./check ALL --selftest mutants       sensitivity: /verif/mutants/*.patch applied to /repo one at a time
"""

import errno
import glob
import json
import os
import random
import shutil
import subprocess
import sys
import time

from whoosim import engine

PROPS = ["C01", "C02", "C03", "C04", "C05", "C06", "C07", "C08", "C09", "C10", "C14", "C18", "C19"]


def main(pid, which, args):
    props = PROPS if pid == "ALL" else [pid]
    if which == "determinism":
        return determinism(props, args)
    if which == "simos":
        return simos(args)
    if which == "mutants":
        return mutants(props, args)
    if which == "digests":
        # helper for the fresh-interpreter leg: print seed -> digest
        n = args.runs or 12
        for p in props:
            for seed in range(n):
                r = engine.run_one(p, 7000 + seed, "quick")
                print("%s %d %s %s" % (p, 7000 + seed, r["verdict"], r.get("digest")))
        return 0
    print("unknown selftest %r" % which)
    return 2


# -- determinism ----------------------------------------------------------------

def determinism(props, args):
    n = args.runs or 12
    bad = 0
    total = 0
    t0 = time.time()
    for p in props:
        seeds = [7000 + i for i in range(n)]
        # leg 1+2: in this process, twice
        first = {}
        for s in seeds:
            a = engine.run_one(p, s, "quick")
            b = engine.run_one(p, s, "quick")
            total += 1
            first[s] = (a["verdict"], a.get("digest"))
            if (a["verdict"], a.get("digest")) != (b["verdict"], b.get("digest")):
                print("NONDETERMINISM %s seed %d in-process: %s vs %s" % (p, s, first[s], (b["verdict"], b.get("digest"))))
                bad += 1
        # leg 3: fresh interpreter
        out = subprocess.run([os.path.join(engine.VERIF, "check"), p, "--selftest", "digests", "--runs", str(n)],
                             capture_output=True, text=True, timeout=1800).stdout
        fresh = {}
        for line in out.splitlines():
            parts = line.split()
            if len(parts) == 4 and parts[0] == p:
                fresh[int(parts[1])] = (parts[2], parts[3] if parts[3] != "None" else None)
        for s in seeds:
            if fresh.get(s) != first[s]:
                print("NONDETERMINISM %s seed %d fresh interpreter: %s vs %s" % (p, s, first[s], fresh.get(s)))
                bad += 1
        # leg 4: 16 workers vs 1 worker through the batch runner (same per-run seeds)
        r16, _ = engine.batch(p, "quick", 9, n, workers=16, audit_every=0)
        r1, _ = engine.batch(p, "quick", 9, n, workers=1, audit_every=0)
        d16 = dict((r["seed"], (r["verdict"], r.get("digest"))) for r in r16)
        d1 = dict((r["seed"], (r["verdict"], r.get("digest"))) for r in r1)
        if d16 != d1:
            diff = [s for s in d16 if d16[s] != d1.get(s)]
            print("NONDETERMINISM %s worker-count: seeds %s" % (p, diff[:5]))
            bad += 1
        print("determinism %s: %d seeds x (2 in-process + fresh interpreter + 1/16 workers) %s"
              % (p, n, "OK" if not bad else "FAILED"))
        sys.stdout.flush()
    print("determinism selftest: %d seed checks, %d mismatches, %.1fs" % (total, bad, time.time() - t0))
    return 0 if not bad else 2


# -- stub fidelity -----------------------------------------------------------------

def simos(args):
    bad = 0
    bad += simos_micro(args.runs or 300)
    bad += simos_histories(args.runs or 60)
    print("simos selftest: %s" % ("OK" if not bad else "%d MISMATCHES" % bad))
    return 0 if not bad else 2


def simos_micro(n):
    """Random micro-workloads of file operations executed against the
    simulated OS and the real one, compared call by call."""
    import fcntl as real_fcntl
    from whoosim.kernel import Kernel
    from whoosim.simos import SimOS
    bad = 0
    base = "/dev/shm/whoosim_simos_%d" % os.getpid()
    for seed in range(n):
        rng = random.Random("micro/%d" % seed)
        shutil.rmtree(base, ignore_errors=True)
        os.makedirs(base + "/d")
        k = Kernel(seed)
        so = SimOS(k, bufsize=8192, shuffle_listdir=False)   # CPython's own buffer size, for comparability
        k.bind_main()
        so.mkdirs("/d")
        names = ["a", "b", "c"]
        sim_files, real_files = {}, {}
        sim_fds, real_fds = {}, {}
        trace = []

        def both(fs, fr):
            def call(f):
                try:
                    return ("ok", f())
                except OSError as e:
                    return ("err", e.errno)
                except ValueError as e:
                    return ("valueerror", None)
            return call(fs), call(fr)
        for step in range(rng.randint(5, 40)):
            op = rng.choice(["open_w", "open_wp", "open_r", "write", "read", "seek", "tell", "flush", "close",
                             "truncate", "rename", "remove", "listdir", "exists", "getsize", "lock", "unlock", "mkdir", "rmdir"])
            nm = rng.choice(names)
            sp, rp = "/d/" + nm, base + "/d/" + nm
            if op in ("open_w", "open_wp", "open_r"):
                mode = {"open_w": "wb", "open_wp": "w+b", "open_r": "rb"}[op]
                key = "%s%d" % (nm, step)
                a, b = both(lambda: so.open(sp, mode), lambda: open(rp, mode))
                if a[0] == "ok" and b[0] == "ok":
                    sim_files[key], real_files[key] = a[1], b[1]
                    a = b = ("ok", None)
            elif op in ("write", "read", "seek", "tell", "flush", "close", "truncate"):
                if not sim_files:
                    continue
                key = rng.choice(sorted(sim_files))
                fs, fr = sim_files[key], real_files[key]
                if op == "write":
                    data = bytes(bytearray(rng.randrange(256) for _ in range(rng.randint(0, 30))))
                    a, b = both(lambda: fs.write(data), lambda: fr.write(data))
                    if a[0] == "err" or b[0] == "err" or "r" in getattr(fr, "mode", "") and "+" not in fr.mode:
                        # writing to a read-only file: io.UnsupportedOperation vs OSError; both must fail
                        a = (a[0] != "ok",)
                        b = (b[0] != "ok",)
                elif op == "read":
                    cnt = rng.choice((-1, 0, 1, 5, 100))
                    a, b = both(lambda: fs.read(cnt), lambda: fr.read(cnt))
                    if "w" in fr.mode and "+" not in fr.mode:
                        a = (a[0] != "ok" or True,)
                        b = (True,)
                elif op == "seek":
                    off, wh = rng.choice(((0, 0), (3, 0), (0, 2), (-1, 2), (2, 1), (50, 0)))
                    a, b = both(lambda: fs.seek(off, wh), lambda: fr.seek(off, wh))
                elif op == "tell":
                    a, b = both(lambda: fs.tell(), lambda: fr.tell())
                elif op == "flush":
                    a, b = both(lambda: fs.flush(), lambda: fr.flush())
                elif op == "truncate":
                    if "r" in fr.mode and "+" not in fr.mode:
                        continue
                    size = rng.choice((None, 0, 2, 40))
                    a, b = both(lambda: fs.truncate(size), lambda: fr.truncate(size))
                else:
                    a, b = both(lambda: fs.close(), lambda: fr.close())
                    del sim_files[key], real_files[key]
            elif op == "rename":
                nm2 = rng.choice(names)
                a, b = both(lambda: so.os.rename(sp, "/d/" + nm2), lambda: os.rename(rp, base + "/d/" + nm2))
            elif op == "remove":
                a, b = both(lambda: so.os.remove(sp), lambda: os.remove(rp))
            elif op == "listdir":
                # flush nothing: listing sees names only
                a, b = both(lambda: sorted(so.os.listdir("/d")), lambda: sorted(os.listdir(base + "/d")))
            elif op == "exists":
                a, b = both(lambda: so.os.path.exists(sp), lambda: os.path.exists(rp))
            elif op == "getsize":
                # user-space buffers make sizes differ unless flushed: flush every open file first
                for kk in sim_files:
                    try:
                        sim_files[kk].flush()
                        real_files[kk].flush()
                    except (OSError, ValueError):
                        pass
                a, b = both(lambda: so.os.path.getsize(sp), lambda: os.path.getsize(rp))
            elif op == "mkdir":
                a, b = both(lambda: so.os.mkdir("/d/sub"), lambda: os.mkdir(base + "/d/sub"))
            elif op == "rmdir":
                a, b = both(lambda: so.os.rmdir("/d/sub"), lambda: os.rmdir(base + "/d/sub"))
            elif op == "lock":
                key = "L%d" % step
                a, b = both(lambda: so.os.open("/d/LOCK", os.O_CREAT | os.O_WRONLY), lambda: os.open(base + "/d/LOCK", os.O_CREAT | os.O_WRONLY))
                if a[0] == "ok" and b[0] == "ok":
                    sfd, rfd = a[1], b[1]
                    a, b = both(lambda: so.fcntl.flock(sfd, real_fcntl.LOCK_EX | real_fcntl.LOCK_NB),
                                lambda: real_fcntl.flock(rfd, real_fcntl.LOCK_EX | real_fcntl.LOCK_NB))
                    sim_fds[key], real_fds[key] = sfd, rfd
            elif op == "unlock":
                if not sim_fds:
                    continue
                key = rng.choice(sorted(sim_fds))
                sfd, rfd = sim_fds.pop(key), real_fds.pop(key)
                if rng.random() < 0.5:
                    a, b = both(lambda: so.fcntl.flock(sfd, real_fcntl.LOCK_UN), lambda: real_fcntl.flock(rfd, real_fcntl.LOCK_UN))
                a, b = both(lambda: so.os.close(sfd), lambda: os.close(rfd))
            trace.append((op, nm, a, b))
            if a != b:
                print("SIMOS MISMATCH seed %d step %d %s(%s): sim %r real %r" % (seed, step, op, nm, str(a)[:80], str(b)[:80]))
                if os.environ.get("WHOOSIM_TB"):
                    for t in trace[-12:]:
                        print("    ", t[0], t[1], str(t[2])[:60], str(t[3])[:60])
                bad += 1
                break
        for f in list(real_files.values()):
            try:
                f.close()
            except Exception:  # noqa
                pass
        for fd in real_fds.values():
            try:
                os.close(fd)
            except OSError:
                pass
        k.aborting = True
    shutil.rmtree(base, ignore_errors=True)
    print("simos micro-workloads: %d sequences, %d mismatches" % (n, bad))
    return bad


def simos_histories(n):
    """Fault-free single-actor histories executed by real Whoosh once on the
    simulated OS and once on a real scratch directory: same file names, same
    bytes for every file that carries no timestamp, same sizes for the rest,
    same logical dump."""
    from whoosim.props import c07
    from whoosim.session import Session, cfg_from_record
    from whoosim.hist import HistActor
    from whoosim import dump as D
    bad = 0
    base = "/dev/shm/whoosim_real_%d" % os.getpid()
    for seed in range(n):
        rec = c07.generate(500000 + seed, "quick")
        # keep only fault-free transactions
        ops = [op for op in rec["ops"] if op[0] not in ("arm_iofault",)]
        out = {}
        for mode in ("sim", "real"):
            shutil.rmtree(base, ignore_errors=True)
            if mode == "real":
                os.makedirs(base)
            s = Session(rec["seed"], cfg=cfg_from_record(rec["config"]), real_dir=(base if mode == "real" else None))
            try:
                actor = HistActor(s)
                try:
                    actor.run(ops)
                    err = None
                except Exception as e:  # noqa
                    err = "%s: %s" % (type(e).__name__, str(e)[:80])
                listing = {}
                if mode == "sim":
                    files, dirs = s.os.snapshot()
                    for p, data in files.items():
                        if p.startswith("/ix/"):
                            listing[p[4:]] = data
                else:
                    d = base + "/ix"
                    if os.path.isdir(d):
                        for root, _, fnames in os.walk(d):
                            for fn in fnames:
                                full = os.path.join(root, fn)
                                with open(full, "rb") as fh:
                                    listing[os.path.relpath(full, d)] = fh.read()
                dump = None
                if actor.ix is not None and err is None:
                    r = actor.ix.reader()
                    try:
                        dd = D.real_dump(r)
                        dump = repr(sorted((repr(k), repr(v)) for k, v in dd["docs"].items())) + repr(sorted((repr(k), repr(v)) for k, v in dd["terms"].items()))
                    finally:
                        r.close()
                out[mode] = (err, listing, dump)
            finally:
                s.close()
        (e1, l1, d1), (e2, l2, d2) = out["sim"], out["real"]
        ok = True
        if (e1 is None) != (e2 is None):
            ok = False
            why = "exception %r vs %r" % (e1, e2)
        elif sorted(l1) != sorted(l2):
            ok = False
            why = "file names differ: only sim %s, only real %s" % (sorted(set(l1) - set(l2))[:4], sorted(set(l2) - set(l1))[:4])
        elif d1 != d2:
            ok = False
            why = "logical dumps differ"
        else:
            for name in l1:
                if name.endswith(".seg"):
                    # member order follows listdir order (unspecified): compare member by member
                    m1, m2 = compound_members(l1[name]), compound_members(l2[name])
                    if m1 != m2:
                        ok = False
                        why = "members of %s differ: %s" % (name, sorted(set(m1) ^ set(m2))[:3] or [k for k in m1 if m1[k] != m2[k]][:3])
                        break
                elif name.endswith(".toc"):
                    if len(l1[name]) != len(l2[name]):
                        ok = False
                        why = "size of %s differs: %d vs %d" % (name, len(l1[name]), len(l2[name]))
                        break
                elif l1[name] != l2[name]:
                    ok = False
                    why = "bytes of %s differ" % name
                    break
        if not ok:
            bad += 1
            print("SIMOS MISMATCH history seed %d: %s" % (500000 + seed, why))
    shutil.rmtree(base, ignore_errors=True)
    print("simos histories: %d histories on simulated and real OS, %d mismatches" % (n, bad))
    return bad


def compound_members(data):
    import io
    import pickle
    import struct
    dirpos = struct.unpack("!q", data[:8])[0]
    d = pickle.load(io.BytesIO(data[dirpos:]))
    return dict((k, data[v["offset"]:v["offset"] + v["length"]]) for k, v in d.items())


# -- mutants ---------------------------------------------------------------------------

def mutants(props, args):
    repo = "/repo"
    st = subprocess.run(["git", "-C", repo, "status", "--porcelain", "--untracked-files=no"], capture_output=True, text=True).stdout.strip()
    if st:
        print("refusing: /repo has uncommitted changes")
        return 2
    results = []
    for patch in sorted(glob.glob(os.path.join(engine.VERIF, "mutants", "*.patch"))):
        name = os.path.basename(patch)
        pid = name.split("_")[0]
        if pid not in props:
            continue
        ap = subprocess.run(["git", "-C", repo, "apply", patch], capture_output=True, text=True)
        if ap.returncode != 0:
            print("MUTANT %s does not apply: %s" % (name, ap.stderr.strip()[:200]))
            results.append((name, "noapply"))
            continue
        try:
            t0 = time.time()
            p = subprocess.run(["env", "WHOOSIM_EVIDENCE_DIR=" + os.path.join(engine.VERIF, "out", "evidence_mutated"),
                                os.path.join(engine.VERIF, "check"), pid, "--tier", "quick", "--seed", "3"],
                               capture_output=True, text=True, timeout=1500)
            caught = p.returncode == 1 and "VIOLATION property=%s" % pid in p.stdout
            results.append((name, "caught" if caught else "MISSED rc=%d" % p.returncode))
            print("MUTANT %s: %s (%.0fs)" % (name, results[-1][1], time.time() - t0))
            sys.stdout.flush()
        finally:
            subprocess.run(["git", "-C", repo, "checkout", "--", "."], check=True)
    missed = [r for r in results if r[1] != "caught"]
    print("mutants selftest: %d mutants, %d caught, %d not" % (len(results), len(results) - len(missed), len(missed)))
    return 0 if not missed else 1
