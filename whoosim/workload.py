"""Schema zoo, document generators and knob draws (the sampled workload).

All draws come from random.Random instances handed in by the caller (the
kernel's named streams), never from the global PRNG.
"""

import datetime
from decimal import Decimal

WORDS = ["alfa", "bravo", "charlie", "delta", "echo", "foxtrot", "golf",
         "hotel", "india", "juliet", "kilo", "lima", "mike", "november",
         "oscar", "papa", "quebec", "romeo", "sierra", "tango", "uniform",
         "victor", "whiskey", "xray", "yankee", "zulu"]


# dynamic (glob) fields: schema name -> the concrete field names documents use
DYN = {"*_dyn": ("a_dyn", "b_dyn")}


def expand_names(names, schema=None):
    """Configured field names with glob entries replaced by the concrete names documents
    use (plus, given a schema, the concrete names of globs the schema holds)."""
    out = []
    for n in names:
        if n in DYN:
            out.extend(DYN[n])
        else:
            out.append(n)
    if schema is not None:
        for g, cs in DYN.items():
            for c in cs:
                if c not in out and c in schema:
                    out.append(c)
    return out


class FieldSpec(object):
    def __init__(self, name, make, gen, tags=(), weight=1.0):
        self.name = name
        self.make = make      # () -> whoosh field object (fresh each call)
        self.gen = gen        # (rng, ctx) -> value
        self.tags = set(tags)
        self.weight = weight  # probability that a run enables this field


def _text(rng, ctx, lo=1, hi=8):
    if rng.random() < ctx.get("stopword_text_p", 0.0):
        # a value that analyzes to no token at all (stop words only): the field is supplied but
        # has no posting, no length and an empty vector
        return rng.choice((u"the a an", u"of", u"and the"))
    if rng.random() < ctx.get("long_text_p", 0.08):
        n = rng.randint(19, 45)
    else:
        n = rng.randint(lo, hi)
    return u" ".join(rng.choice(ctx["vocab"]) for _ in range(n))


def _kw(rng, ctx):
    n = rng.randint(1, 4)
    return u",".join(rng.choice(ctx["vocab"]) for _ in range(n))


def _stored_obj(rng, ctx):
    c = rng.randrange(7)
    if c == 0:
        return rng.randint(-2 ** 40, 2 ** 40)
    if c == 1:
        return u"caf\xe9 \U0001F600 " + rng.choice(ctx["vocab"])
    if c == 2:
        return bytes(bytearray(rng.randrange(256) for _ in range(rng.randint(0, 12))))
    if c == 3:
        return [1, u"two", (3.5, None), {"k": [rng.randint(0, 9)]}]
    if c == 4:
        return rng.random()
    if c == 5:
        return Decimal("%d.%02d" % (rng.randint(-999, 999), rng.randint(0, 99)))
    return {"a": rng.randint(0, 5), "b": u"x" * rng.randint(0, 300)}


def _bytesval(rng, ctx):
    c = rng.randrange(5)
    if c == 0:
        return b""
    if c == 1:
        return rng.choice(ctx["vocab"]).encode()
    if c == 2:
        return bytes(bytearray(rng.randrange(256) for _ in range(rng.randint(1, 40))))
    if c == 3:
        return u"caf\xe9 \U0001F600".encode("utf-8")
    return b"x" * rng.choice((255, 256, 257, 1000))


def _dt(rng, ctx):
    return datetime.datetime(rng.randint(1990, 2030), rng.randint(1, 12),
                             rng.randint(1, 28), rng.randint(0, 23),
                             rng.randint(0, 59), rng.randint(0, 59),
                             rng.choice((0, 0, 1, 999999, 999998, 500000, rng.randint(0, 999999))))


def _btext(rng, ctx):
    """Text whose tokens carry boosts ("alfa^2 bravo alfa^0.5"), with repeated words."""
    words = [rng.choice(ctx["vocab"][:5]) for _ in range(rng.randint(1, 7))]
    return u" ".join(w + (u"^%s" % rng.choice((2, 0.5, 3, 1.5)) if rng.random() < 0.5 else u"") for w in words)


def _boost_analyzer():
    from whoosh import analysis
    return analysis.RegexTokenizer(r"\S+") | analysis.DelimitedAttributeFilter(delimiter="^", attribute="boost", default=1.0, type=float)


def _posboost_field():
    from whoosh import fields, formats
    f = fields.TEXT(analyzer=_boost_analyzer())
    f.format = formats.PositionBoosts(field_boost=f.format.field_boost)
    return f


def zoo():
    """The full list of field specs. Import of whoosh is deferred so that
    the seams are installed first."""
    from whoosh import fields, columns
    F = FieldSpec
    return [
        F("k", lambda: fields.ID(stored=True, unique=True),
          lambda r, c: None, tags=("key",), weight=1.0),
        F("u", lambda: fields.STORED(), lambda r, c: None, tags=("uid",), weight=1.0),
        F("t", lambda: fields.TEXT(stored=True), _text, tags=("text", "pos", "scorable"), weight=1.0),
        F("tc", lambda: fields.TEXT(chars=True, vector=True), _text,
          tags=("text", "pos", "chars", "vector", "scorable"), weight=0.5),
        F("tb", lambda: fields.TEXT(phrase=False, field_boost=2.5), _text,
          tags=("text", "scorable", "fboost"), weight=0.3),
        # per-token boosts (a DelimitedAttributeFilter sets them) under the Positions and the
        # PositionBoosts formats: the posting weight is the SUM of the boosts of the occurrences
        F("tx", lambda: fields.TEXT(analyzer=_boost_analyzer()), _btext, tags=("text", "pos", "scorable", "tokboost"), weight=0.0),
        F("txb", _posboost_field, _btext, tags=("text", "pos", "scorable", "tokboost"), weight=0.0),
        F("tv", lambda: fields.TEXT(stored=True, vector=True), _text,
          tags=("text", "pos", "vector", "scorable"), weight=0.3),
        F("kw", lambda: fields.KEYWORD(stored=True, commas=True, scorable=True, lowercase=True),
          _kw, tags=("kw", "scorable"), weight=0.6),
        F("n", lambda: fields.NUMERIC(int, stored=True, sortable=True),
          lambda r, c: r.choice((0, 1, -1, 7, 2 ** 31 - 1, -2 ** 31, r.randint(-50, 50), r.randint(-10 ** 6, 10 ** 6))),
          tags=("num", "column", "sortable"), weight=0.6),
        F("nu", lambda: fields.NUMERIC(int, bits=16, signed=False, stored=True),
          lambda r, c: r.choice((0, 65535, r.randint(0, 65535), r.randint(0, 20))),
          tags=("num",), weight=0.3),
        F("nf", lambda: fields.NUMERIC(float, stored=True),
          lambda r, c: r.choice((0.0, -0.0, 1.5, -2.25, 1e300, -1e-300, r.uniform(-100, 100))),
          tags=("num", "float"), weight=0.3),
        F("nd", lambda: fields.NUMERIC(Decimal, decimal_places=2, stored=True, sortable=True),
          lambda r, c: Decimal("%d.%02d" % (r.randint(-999, 999), r.randint(0, 99))),
          tags=("num", "decimal", "column", "sortable"), weight=0.25),
        F("dt", lambda: fields.DATETIME(stored=True), _dt, tags=("date",), weight=0.3),
        F("b", lambda: fields.BOOLEAN(stored=True), lambda r, c: r.random() < 0.5,
          tags=("bool",), weight=0.3),
        F("s", lambda: fields.STORED(), _stored_obj, tags=("storedonly",), weight=0.5),
        F("ng", lambda: fields.NGRAMWORDS(minsize=2, maxsize=3, stored=True),
          lambda r, c: _text(r, c, 1, 3), tags=("ngram", "scorable"), weight=0.2),
        F("so", lambda: fields.ID(stored=True, sortable=True),
          lambda r, c: r.choice(c["vocab"]), tags=("column", "sortable", "twin"), weight=0.5),
        F("sp", lambda: fields.ID(stored=True),
          lambda r, c: None, tags=("twin_of_so",), weight=0.0),
        # a dynamic field: indexed, scorable, with vectors, NOT stored (its lengths and vectors exist
        # only in the per-document files, which merges have to carry over by concrete name)
        F("*_dyn", lambda: fields.TEXT(vector=True), _text, tags=("dyn",), weight=0.0),
        F("k2", lambda: fields.ID(stored=True, unique=True),
          lambda r, c: None, tags=("key2",), weight=0.0),
        # explicit column types (C08)
        F("cvb", lambda: fields.COLUMN(columns.VarBytesColumn()), _bytesval, tags=("col",), weight=0.0),
        F("cvb0", lambda: fields.COLUMN(columns.VarBytesColumn(allow_offsets=False)), _bytesval, tags=("col",), weight=0.0),
        F("cfb", lambda: fields.COLUMN(columns.FixedBytesColumn(4)),
          lambda r, c: bytes(bytearray(r.randrange(256) for _ in range(4))), tags=("col",), weight=0.0),
        F("crb", lambda: fields.COLUMN(columns.RefBytesColumn()),
          lambda r, c: r.choice(c["vocab"]).encode() if r.random() < 0.8 else _bytesval(r, c), tags=("col",), weight=0.0),
        F("crf", lambda: fields.COLUMN(columns.RefBytesColumn(3)),
          lambda r, c: r.choice(c["vocab"])[:3].encode().ljust(3, b"_"), tags=("col",), weight=0.0),
        F("cni", lambda: fields.COLUMN(columns.NumericColumn("i")),
          lambda r, c: r.choice((0, -1, 2 ** 31 - 1, -2 ** 31, r.randint(-1000, 1000))), tags=("col",), weight=0.0),
        F("cnq", lambda: fields.COLUMN(columns.NumericColumn("q", default=-7)),
          lambda r, c: r.choice((0, 2 ** 63 - 1, -2 ** 63, r.randint(-10 ** 12, 10 ** 12))), tags=("col",), weight=0.0),
        F("cnd", lambda: fields.COLUMN(columns.NumericColumn("d")),
          lambda r, c: r.choice((0.0, -0.0, 1e308, -2.5, r.random())), tags=("col",), weight=0.0),
        F("cbit", lambda: fields.COLUMN(columns.BitColumn()),
          lambda r, c: r.random() < 0.5, tags=("col",), weight=0.0),
        F("cbit2", lambda: fields.COLUMN(columns.BitColumn(compress_at=4)),
          lambda r, c: r.random() < 0.5, tags=("col",), weight=0.0),
        F("ccb", lambda: fields.COLUMN(columns.CompressedBytesColumn()), _bytesval, tags=("col",), weight=0.0),
        F("ccbl", lambda: fields.COLUMN(columns.CompressedBlockColumn(blocksize=1)),
          _bytesval, tags=("col",), weight=0.0),
        F("cpk", lambda: fields.COLUMN(columns.PickleColumn(columns.VarBytesColumn())),
          _stored_obj, tags=("col",), weight=0.0),
        F("cvl", lambda: fields.COLUMN(columns.VarBytesListColumn()),
          lambda r, c: [r.choice(c["vocab"]).encode() for _ in range(r.randint(1, 3))], tags=("col",), weight=0.0),
        F("cfl", lambda: fields.COLUMN(columns.FixedBytesListColumn(3)),
          lambda r, c: [r.choice(c["vocab"])[:3].encode().ljust(3, b"_") for _ in range(r.randint(1, 3))],
          tags=("col",), weight=0.0),
        F("cst", lambda: fields.COLUMN(columns.StructColumn("<iH", (0, 0))),
          lambda r, c: (r.randint(-10 ** 6, 10 ** 6), r.randint(0, 65535)), tags=("col",), weight=0.0),
        # sortable DATETIME (reading its column for a document without a date used to raise; fixed by 24b75df)
        F("dts", lambda: fields.DATETIME(stored=True, sortable=True), _dt,
          tags=("date", "column", "sortable"), weight=0.0),
    ]


class RunConfig(object):
    """Everything drawn from the 'config' stream for one run."""

    def __init__(self, rng, force=None, allow=None, want=None):
        force = force or {}
        specs = zoo()
        self.vocab = rng.sample(WORDS, rng.randint(5, 12))
        enabled = []
        for s in specs:
            if allow is not None and s.name not in allow and s.name not in ("k", "u", "t"):
                continue
            if s.name in ("k", "u", "t") or (want and s.name in want) or rng.random() < s.weight:
                enabled.append(s.name)
        if "so" in enabled and "sp" not in enabled and (allow is None or "sp" in allow):
            enabled.append("sp")
        self.fields = enabled
        self.specs = dict((s.name, s) for s in specs)
        # storage / codec knobs
        self.bufsize = rng.choice((1, 16, 512, 8192, 1 << 30))
        self.hide_fileno = rng.random() < 0.15   # file objects without fileno(): no mmap, no 'real file' fast paths
        self.mmap = rng.random() < 0.6            # FileStorage(supports_mmap=...)
        self.compound = rng.random() < 0.6
        self.blocklimit = rng.choice((1, 2, 3, 4, 8, 16, 128))
        self.compression = rng.choice((0, 0, 3, 9))
        self.inlinelimit = rng.choice((1, 1, 1, 2, 4))
        self.limitmb = rng.choice((128, 128, 1e-3, 1e-4, 1e-5))
        self.long_text_p = rng.choice((0.0, 0.08, 0.3))
        # buffer of the per-document CompoundWriter sub-streams (32 KB in the library): small
        # values make ordinary segments cross the spill path that otherwise needs >64 KB columns
        self.cbuf = rng.choice((32768, 32768, 4096, 512, 64))
        # rows above which a VarBytesColumn also writes an offsets table (2**15 in the library: "mostly
        # for testing"): small values make ordinary segments cross the offsets path
        self.offcut = rng.choice((32768, 32768, 2, 9))
        # how many document numbers ArrayUnionMatcher (Or of >= 3 clauses on small segments) scores
        # at a time (2048 in the library): small values make small segments span several parts
        self.aupart = rng.choice((2048, 2048, 4, 16, 64))
        self.stopword_text_p = rng.choice((0.0, 0.0, 0.04, 0.15))
        # the application writes into the stored-field dictionaries it is handed
        self.scribble = rng.random() < 0.3
        # significant bits of the hash behind the on-disk hash tables (32 in the library)
        self.hashbits = rng.choice((32, 32, 32, 10, 4)) if not __import__("os").environ.get("NOHB") else 32
        for kk, vv in force.items():
            setattr(self, kk, vv)

    def ctx(self):
        return {"vocab": self.vocab, "long_text_p": self.long_text_p,
                "stopword_text_p": getattr(self, "stopword_text_p", 0.0)}

    def make_schema(self, names=None):
        from whoosh import fields
        names = names if names is not None else self.fields
        sch = fields.Schema()
        for n in names:
            sch.add(n, self.specs[n].make(), glob=("*" in n))
        return sch

    def make_codec(self):
        from whoosh.codec.whoosh3 import W3Codec
        return W3Codec(blocklimit=self.blocklimit, compression=self.compression,
                       inlinelimit=getattr(self, "inlinelimit", 1))

    def writer_kwargs(self):
        return {"limitmb": self.limitmb, "compound": self.compound,
                "codec": self.make_codec()}

    def describe(self):
        return {"fields": list(self.fields), "vocab": list(self.vocab),
                "bufsize": self.bufsize, "hide_fileno": self.hide_fileno, "mmap": getattr(self, "mmap", True),
                "compound": self.compound, "blocklimit": self.blocklimit,
                "compression": self.compression, "limitmb": self.limitmb,
                "inlinelimit": getattr(self, "inlinelimit", 1),
                "cbuf": getattr(self, "cbuf", 32768),
                "offcut": getattr(self, "offcut", 32768),
                "aupart": getattr(self, "aupart", 2048),
                "hashbits": getattr(self, "hashbits", 32),
                "scribble": getattr(self, "scribble", False),
                "stopword_text_p": getattr(self, "stopword_text_p", 0.0),
                "long_text_p": self.long_text_p}


class DocGen(object):
    """Generates documents (dicts of keyword arguments for add_document)
    with a fresh uid each; keys are drawn from a small key space so that
    updates and deletes hit existing documents."""

    def __init__(self, cfg, rng, nkeys=12, stored_only_p=0.0, k2_independent_p=0.0):
        self.cfg = cfg
        self.rng = rng
        self.nkeys = nkeys
        self.next_uid = 1
        self.stored_only_p = stored_only_p        # documents without a single posting
        self.k2_independent_p = k2_independent_p  # second unique key not tied to the first
        # vocabulary drift: (words, n) = these words stop being used after the n-th document, so their
        # posting lists run out early in a segment while the others go on
        self.drift = None

    def doc(self, key=None, sparse_p=0.25, fields_subset=None):
        rng = self.rng
        cfg = self.cfg
        ctx = cfg.ctx()
        if self.drift is not None and self.next_uid > self.drift[1]:
            ctx = dict(ctx, vocab=[w for w in ctx["vocab"] if w not in self.drift[0]] or ctx["vocab"])
        if key is None:
            key = rng.randrange(self.nkeys)
        d = {"k": u"k%03d" % key, "u": self.next_uid}
        self.next_uid += 1
        if self.stored_only_p and rng.random() < self.stored_only_p:
            # only stored values: such a document produces no postings at all
            del d["k"]
            if "s" in cfg.fields:
                d["s"] = cfg.specs["s"].gen(rng, ctx)
            return d
        names = fields_subset if fields_subset is not None else cfg.fields
        for n in names:
            if n in ("k", "u", "sp", "k2"):
                continue
            if n in DYN:
                for cn in DYN[n]:
                    if rng.random() < 0.6:
                        d[cn] = cfg.specs[n].gen(rng, ctx)
                continue
            if n != "t" and rng.random() < sparse_p:
                continue
            d[n] = cfg.specs[n].gen(rng, ctx)
        if "sp" in names and "so" in d:
            d["sp"] = d["so"]
        if "k2" in names:
            if self.k2_independent_p and rng.random() < self.k2_independent_p:
                d["k2"] = u"q%03d" % rng.randrange(self.nkeys)
            else:
                d["k2"] = u"q%03d" % key
        r = rng.random()
        if r < 0.06:
            d["_boost"] = rng.choice((0.5, 2.0, 3.0))
        elif r < 0.12 and "t" in d:
            d["_t_boost"] = rng.choice((0.5, 2.0))
        if rng.random() < 0.05 and "t" in d:
            d["_stored_t"] = u"override " + d["t"]
        return d
