#!/bin/bash
# Thorough tier of every registered check, one after the other (background soak: vp run --with-repo -- ./tools_soak.sh <VERIF_SEED> [ids]).
cd "$(dirname "$0")"
sd="${1:-7}"; shift
ids="$*"
[ -z "$ids" ] && ids=$(python3 -c "import json;print(' '.join(c['property_id'] for c in json.load(open('MANIFEST.json'))['checks']))")
[ -n "$VP_RUN_REPO" ] && export WHOOSIM_REPO="$VP_RUN_REPO"
mkdir -p evidence out
for p in $ids; do
  out=$(VERIF_SEED=$sd ./check $p --tier thorough 2>&1); rc=$?
  echo "seed=$sd $p rc=$rc $(echo "$out" | tail -1)"
  if [ $rc -ne 0 ]; then echo "$out" | grep -v "^  File\|^    " | grep -v KNOWN | cut -c1-800 | tail -25; fi
done
